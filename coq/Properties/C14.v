(* C14 - Watcher notifications, folded in order, always equal the visible cluster state.
   Only statements here; proofs in GossipP/WatchP.v. Model: Gossip/Apply.v
   (ApplyDigest / ApplyDelta / applyDeltaEntry / UpdateLiveness / RemoveExpiredAt, pkg/gossip/state.go). *)
From Coq Require Import List String NArith ZArith Bool.
From Piko Require Import Base.Maps Base.Strs Gossip.Types Gossip.Local Gossip.Apply.
From Piko Require Import GossipP.LocalP GossipP.ApplyP GossipP.WatchP.
Import ListNotations.
Open Scope string_scope. Open Scope list_scope. Open Scope N_scope.

(* "Replaying the notifications a gossip watcher has received reproduces the node's current view exactly":
   for EVERY sequence of receiver operations (digests, deltas - truncated, duplicated, reordered, relayed -,
   liveness evaluations, expiry sweeps) whose incoming entries are key-consistent, starting from any state whose
   shadow agrees, the fold of all events emitted agrees with the final state: same set of remote nodes, same
   left/unreachable flags, and for every key the folded value = the visible (non-internal, non-deleted) value.
   This includes "every key that disappears - by an explicit delete or by compaction of a deletion the observer
   never saw - is announced as deleted" (otherwise the fold would still hold it). *)
Theorem C14_fold_equals_visible :
  forall ops c sh, RInv c -> Forall rop_kc ops -> agree sh c ->
  RInv (fst (rrun c ops)) /\ agree (fold_events sh (snd (rrun c ops))) (fst (rrun c ops)).
Proof. exact fold_equals_visible. Qed.

(* from a fresh node and the empty replay *)
Theorem C14_from_start :
  forall ops id addr, Forall rop_kc ops ->
  agree (fold_events [] (snd (rrun (new_cstate id addr) ops))) (fst (rrun (new_cstate id addr) ops)).
Proof.
  intros ops id addr Hops. destruct (RInv_new id addr) as [Hi Hag].
  exact (proj2 (fold_equals_visible ops _ _ Hi Hops Hag)).
Qed.

(* "a node is announced before any of its keys": all events of applying entries to a node are about that node, and
   they are folded into a shadow that already holds the node (joined earlier or by the EJoin emitted first) *)
Theorem C14_entries_after_join :
  forall now nid es st sn sh, kc_state st -> Forall kc_entry es -> lookup nid sh = Some sn -> agrees sn st ->
  let '(st', ev) := apply_entries now nid st es in
  evs_about nid ev /\ exists sn', lookup nid (fold_events sh ev) = Some sn' /\ agrees sn' st'.
Proof.
  intros now nid es st sn sh H1 H2 H3 H4. pose proof (apply_entries_agree now nid es st sn sh H1 H2 H3 H4) as H.
  destruct (apply_entries now nid st es) as [st' ev]. destruct H as [A [_ B]]. auto.
Qed.

(* the hypothesis is what honest owners produce: every entry an owner ever holds is key-consistent *)
Theorem C14_owner_entries_key_consistent :
  forall s k e, LInv s -> lookup k (n_ents s) = Some e -> e_key e = k /\ kc_entry e.
Proof.
  intros s k e HI Hl. split; [apply (li_key _ HI _ _ Hl)|]. unfold kc_entry.
  rewrite (li_int _ HI _ _ Hl), (li_key _ HI _ _ Hl). reflexivity.
Qed.

(* non-vacuity: a deletion hidden behind a compaction marker is announced *)
Example C14_example_hidden_delete :
  let c0 := new_cstate "a" "a:1" in
  let d1 := [{| de_id := "b"; de_addr := "b:1"; de_ents := [mk_entry "k" "v" 1 false false; mk_entry "j" "w" 2 false false] |}] in
  let d2 := [{| de_id := "b"; de_addr := "b:1"; de_ents := [mk_entry "j" "w" 4 false false; mk_entry compactKey "3" 5 true false] |}] in
  let ops := [RDelta [] d1; RDelta [] d2] in
  Forall rop_kc ops /\ snd (rrun c0 ops) = [EJoin "b"; EUpsert "b" "k" "v"; EUpsert "b" "j" "w"; EUpsert "b" "j" "w"; EDelete "b" "k"].
Proof. cbn zeta. split; [repeat constructor|vm_compute; reflexivity]. Qed.

Print Assumptions C14_fold_equals_visible.
Print Assumptions C14_from_start.
Print Assumptions C14_entries_after_join.
Print Assumptions C14_owner_entries_key_consistent.
Print Assumptions C14_example_hidden_delete.
