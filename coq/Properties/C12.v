(* C12 - Failure detector: steady peers are never suspected, silent peers always are.
   Model: FD/FD.v (pkg/gossip/failuredetector.go as written).  Proofs: FDP/Window.v, FDP/Phi.v, FDP/Detector.v.
   Vocabulary:  run boot n ts   = the arrivalWindow (sample size n, bootstrap interval boot) after the arrivals ts
                intervals boot ts = boot :: successive differences of ts   (the samples fed to the window)
                lastn k l        = the last k elements of l;   contents w = samples held, oldest first
                phi t w          = Some (numerator, denominator) of the exact level, None = the code panics
                phiQ t w         = the same as a rational number.
   int64 is modelled unbounded (Z); C12_no_overflow bounds the running sum by bootstrap + time span. *)
From Coq Require Import List String ZArith QArith Bool Sorting.Sorted.
From Piko Require Import Base.Maps FD.FD FDP.Window FDP.Phi FDP.Detector.
From Piko Require Import Gossip.Types Gossip.Apply GossipP.ApplyP Compose.LiveFD.
From Piko Require Import generated.Constants GossipP.ConstantsP.
Import ListNotations.
Open Scope list_scope.
Open Scope nat_scope.

(* "measured against the average of its most recent inter-arrival times (a bounded window whose first
   sample is the bootstrap interval)":  after ANY arrival sequence of any length (in particular every
   strictly increasing one), for every window size n >= 1, the buffer holds exactly the last
   min(len, n) elements of bootstrap :: differences, and sum and size are theirs - i.e. the circular
   buffer's eviction arithmetic is right past any number of wrap-arounds. *)
Theorem C12_window : forall (boot : Z) (n : nat) (ts : list Z),
  1 <= n ->
  let w := run boot n ts in
  let k := Nat.min (List.length ts) n in
  contents w = lastn k (intervals boot ts)
  /\ w_sum w = zsum (lastn k (intervals boot ts))
  /\ win_size w = k.
Proof. exact window_spec. Qed.

Example C12_window_ex :   (* n = 3, eight arrivals: wrapped twice; the window holds the last three differences *)
  let w := run 2000 3 [100; 200; 350; 400; 1000; 1100; 1300; 1700]%Z in
  (contents w, w_sum w, win_size w, w_ivs w, w_idx w, w_full w)
  = ([100; 200; 400]%Z, 700%Z, 3, [200; 400; 100]%Z, 2, true).
Proof. vm_compute. reflexivity. Qed.

(* states reached by a non-empty strictly increasing arrival sequence (positive bootstrap): there is a
   last arrival, at least one sample, only positive samples, a positive sum: the hypotheses used below hold *)
Theorem C12_reachable : forall (boot : Z) (n : nat) (ts : list Z),
  1 <= n -> (0 < boot)%Z -> ts <> [] -> Sorted Z.lt ts ->
  let w := run boot n ts in
  w_last w = Some (last ts 0%Z) /\ 1 <= win_size w /\ Forall (fun iv => 0 < iv)%Z (contents w)
  /\ w_sum w = zsum (contents w) /\ (0 < w_sum w)%Z.
Proof. exact run_reachable. Qed.

(* int64 overflow: the running sum is positive and at most bootstrap + (last arrival - first arrival) *)
Theorem C12_no_overflow : forall (boot : Z) (n : nat) (t0 : Z) (r : list Z),
  1 <= n -> (0 < boot)%Z -> Sorted Z.lt (t0 :: r) ->
  (0 < w_sum (run boot n (t0 :: r)) <= boot + (last r t0 - t0))%Z.
Proof. exact run_sum_bound. Qed.

(* "A peer's suspicion level is zero at the moment it is heard from" *)
Theorem C12_zero_at_arrival : forall (boot : Z) (n : nat) (ts : list Z) (t : Z),
  1 <= n -> (0 < boot)%Z -> Sorted Z.lt (ts ++ [t]) ->
  exists den, (0 < den)%Z /\ phi t (run boot n (ts ++ [t])) = Some (0%Z, den)
              /\ (phiQ t (run boot n (ts ++ [t])) == 0)%Q.
Proof. exact zero_at_arrival. Qed.

(* "... and then grows in proportion to the silence since, measured against the average ...":
   phi t = (t - last) * size / sum = (t - last) / mean, and it grows linearly with slope size/sum *)
Theorem C12_linear : forall (w : win) (l t : Z),
  w_last w = Some l -> (0 < w_sum w)%Z ->
  phi t w = Some (((t - l) * Z.of_nat (win_size w))%Z, w_sum w)
  /\ (phiQ t w == inject_Z (t - l) * (inject_Z (Z.of_nat (win_size w)) / inject_Z (w_sum w)))%Q
  /\ forall t2, (phiQ t2 w - phiQ t w == inject_Z (t2 - t) * (inject_Z (Z.of_nat (win_size w)) / inject_Z (w_sum w)))%Q.
Proof. exact linear_full. Qed.

Example C12_linear_ex :   (* the arrival sequence of the repo's unit test: phi 2000 = 7000/500 = 14 *)
  let w := run 2000 5 [100; 200; 300; 400; 500; 600]%Z in
  w_last w = Some 600%Z /\ (0 < w_sum w)%Z /\ phi 2000 w = Some (7000, 500)%Z.
Proof. vm_compute. repeat split; reflexivity. Qed.

(* "Hence a peer heard at roughly steady intervals never crosses the unreachable threshold":
   if every interval in the window is >= m > 0 and the silence is <= theta * m then phi <= theta *)
Theorem C12_accuracy : forall (boot : Z) (n : nat) (ts : list Z) (m t : Z) (theta : Q),
  1 <= n -> ts <> [] -> (0 < m)%Z ->
  Forall (fun iv => m <= iv)%Z (contents (run boot n ts)) ->
  (0 <= theta)%Q -> (inject_Z (t - last ts 0%Z) <= theta * inject_Z m)%Q ->
  (phiQ t (run boot n ts) <= theta)%Q.
Proof. exact accuracy_run. Qed.

(* theta = 20 (gossip.go:22 suspicionThreshold), on the decision `level > threshold` itself *)
Theorem C12_accuracy_20 : forall (boot : Z) (n : nat) (ts : list Z) (m t : Z),
  1 <= n -> ts <> [] -> (0 < m)%Z ->
  Forall (fun iv => m <= iv)%Z (contents (run boot n ts)) ->
  (t - last ts 0 <= 20 * m)%Z ->
  exists p, phi t (run boot n ts) = Some p /\ suspected 20 p = false.
Proof. exact accuracy_20. Qed.

(* a steadily heard peer: all intervals (bootstrap included) >= m and the next arrival at most 20*m after
   the previous one: at no time up to that next arrival is the peer suspected *)
Theorem C12_steady_never_suspected : forall (boot : Z) (n : nat) (ts : list Z) (m t t_next : Z),
  1 <= n -> ts <> [] -> (0 < m)%Z ->
  Forall (fun iv => m <= iv)%Z (intervals boot ts) ->
  (t <= t_next)%Z -> (t_next - last ts 0 <= 20 * m)%Z ->
  exists p, phi t (run boot n ts) = Some p /\ suspected 20 p = false.
Proof. exact steady_never_suspected. Qed.

Example C12_accuracy_ex :   (* production sizes: window 50, interval 100ms, bootstrap 200ms; silence 2s = 20 * 100ms *)
  let ts := [1000000000; 1100000000; 1210000000; 1310000000; 1450000000]%Z in
  1 <= 50 /\ ts <> [] /\ (0 < 100000000)%Z
  /\ Forall (fun iv => 100000000 <= iv)%Z (intervals 200000000 ts)
  /\ (3450000000 - last ts 0 <= 20 * 100000000)%Z
  /\ phi 3450000000 (run 200000000 50 ts) = Some (10000000000, 650000000)%Z.
Proof. vm_compute. repeat split; try discriminate; repeat constructor; discriminate. Qed.

(* "a peer that falls silent always eventually does": every state with a last arrival, a positive sum and
   at least one sample crosses every threshold for good ... *)
Theorem C12_completeness : forall (w : win) (l : Z) (theta : Q),
  w_last w = Some l -> (0 < w_sum w)%Z -> 1 <= win_size w ->
  exists T, forall t, (T <= t)%Z -> (theta < phiQ t w)%Q.
Proof. exact completeness. Qed.

(* ... in particular every state reached by a strictly increasing arrival sequence, for the decision
   `level > th` of the code with any integer threshold th <= theta (th = 20 in production) *)
Theorem C12_completeness_reachable : forall (boot : Z) (n : nat) (ts : list Z) (theta : Q),
  1 <= n -> (0 < boot)%Z -> ts <> [] -> Sorted Z.lt ts ->
  exists T, forall t, (T <= t)%Z ->
    (theta < phiQ t (run boot n ts))%Q
    /\ (forall th p, (inject_Z th <= theta)%Q -> phi t (run boot n ts) = Some p -> suspected th p = true).
Proof. exact completeness_run. Qed.

Example C12_completeness_ex :
  let ts := [100; 200; 350; 400; 1000]%Z in
  1 <= 3 /\ (0 < 2000)%Z /\ ts <> [] /\ Sorted Z.lt ts
  /\ option_map (suspected 20) (phi 6333 (run 2000 3 ts)) = Some false
  /\ option_map (suspected 20) (phi 6334 (run 2000 3 ts)) = Some true.
Proof. repeat split; try discriminate; try (vm_compute; reflexivity); repeat constructor. Qed.

(* "arrivals older than the window have no influence on the level": two histories (even with different
   bootstrap intervals) that agree on their last n+1 arrivals and are both longer than n have the same
   window, hence the same level at every time *)
Theorem C12_window_only : forall (boot1 boot2 : Z) (n : nat) (ts1 ts2 : list Z),
  1 <= n -> n < List.length ts1 -> n < List.length ts2 ->
  lastn (S n) ts1 = lastn (S n) ts2 ->
  let w1 := run boot1 n ts1 in
  let w2 := run boot2 n ts2 in
  contents w1 = contents w2 /\ w_sum w1 = w_sum w2 /\ win_size w1 = win_size w2 /\ w_last w1 = w_last w2
  /\ forall t, phi t w1 = phi t w2.
Proof. exact window_only. Qed.

Example C12_window_only_ex :
  let ts1 := [5; 9; 100; 200; 350]%Z in
  let ts2 := [1; 2; 3; 50; 60; 99; 100; 200; 350]%Z in
  2 < List.length ts1 /\ 2 < List.length ts2 /\ lastn 3 ts1 = lastn 3 ts2
  /\ phi 500 (run 2000 2 ts1) = Some (300, 250)%Z /\ phi 500 (run 7 2 ts2) = Some (300, 250)%Z.
Proof. vm_compute. repeat split; repeat constructor. Qed.

(* the detector: one independent window per peer; the window of peer id after ANY list of
   Report / SuspicionLevel / Remove calls is the run of that peer's own arrival sequence (reports since
   its last Remove; a level query on an unknown peer counts as its first arrival) *)
Theorem C12_detector_tracks : forall (boot : Z) (n : nat) (ops : list fdop) (id : string),
  lookup id (d_wins (fd_exec ops (new_fd boot n))) = option_map (run boot n) (fold_left (track id) ops None).
Proof. exact detector_tracks. Qed.

(* SuspicionLevelAt on a peer never heard from (code as written): answers 0, stores a window whose only
   sample is the bootstrap interval, so the level then grows as (t' - t) / bootstrap and the peer is
   eventually suspected (C12_completeness applies to that window) *)
Theorem C12_never_heard : forall (d : fd) (id : string) (t : Z),
  1 <= d_n d -> (0 < d_boot d)%Z -> lookup id (d_wins d) = None ->
  snd (fd_level id t d) = Some (0%Z, d_boot d)
  /\ lookup id (d_wins (fst (fd_level id t d))) = Some (run (d_boot d) (d_n d) [t])
  /\ forall t', phi t' (run (d_boot d) (d_n d) [t]) = Some ((t' - t) * 1, d_boot d)%Z.
Proof. exact level_unknown. Qed.

(* the detector in its place (Compose/LiveFD.v: UpdateLiveness of the cluster state asking this detector): "a peer
   that falls silent always eventually does" cross the threshold - every liveness evaluation made late enough finds it
   unreachable (and by C11_silent_stays_unreachable it stays so until it is heard from) *)
Theorem C12_silent_eventually_unreachable :
  forall (s : lstate) (p : String.string) (st : node_state) (w : win) (l : Z),
  wf_c (l_c s) -> lookup p (c_nodes (l_c s)) = Some st -> p <> c_local (l_c s) -> n_left st = false ->
  lookup p (d_wins (l_fd s)) = Some w -> w_last w = Some l -> (0 < w_sum w)%Z -> 1 <= win_size w ->
  exists T, forall t nows, (T <= t)%Z -> flag p (fst (ltick t nows s)) = Some true.
Proof. exact silent_eventually_unreachable. Qed.


(* the tie of the threshold to the source: coq/generated/Constants.v is rewritten at every run from the constants of the
   current pkg/gossip as compiled; the threshold the scheduler passes to UpdateLiveness (gossip.go suspicionThreshold) is the
   threshold of the theorems above *)
Theorem C12_threshold_is_the_sources : GoConst.suspicionThreshold = FD.suspicionThreshold.
Proof. exact src_suspicion_threshold. Qed.

Print Assumptions C12_window.
Print Assumptions C12_reachable.
Print Assumptions C12_no_overflow.
Print Assumptions C12_zero_at_arrival.
Print Assumptions C12_linear.
Print Assumptions C12_accuracy.
Print Assumptions C12_accuracy_20.
Print Assumptions C12_steady_never_suspected.
Print Assumptions C12_completeness.
Print Assumptions C12_completeness_reachable.
Print Assumptions C12_window_only.
Print Assumptions C12_detector_tracks.
Print Assumptions C12_never_heard.
Print Assumptions C12_silent_eventually_unreachable.
Print Assumptions C12_threshold_is_the_sources.
