(* C06 - At most one inter-node hop; local upstreams are always preferred. *)
From Coq Require Import List String NArith ZArith Bool.
From Piko Require Import Base.Maps Base.Strs Proxy.Endpoint Proxy.Http Proxy.Route ProxyP.Final.
Import ListNotations.
Open Scope string_scope. Open Scope list_scope.

(* "A node that has a local upstream for the endpoint serves the request locally" - for every environment (even the
   pinned transform), whatever the routing table of the node says: the trace is one handler invocation and one dial of a
   local upstream; no EDialNode. *)
Theorem C06_local_first :
  forall (c : cluster) (e : env) (entry : nat) (a : node) (rq : request) (us : list upstream),
    nth_error c entry = Some a -> pre_ok e rq ->
    lookup (addressed_endpoint rq) (n_local a) = Some us -> us <> [] ->
    exists u, In u us
      /\ res_trace (deliver c e entry rq) = [EInvoke entry; EDialUp entry (u_id u)]
      /\ res_up (deliver c e entry rq) = Some u
      /\ ((exists rs, res_out (deliver c e entry rq) = Served entry u rs)
          \/ res_out (deliver c e entry rq) = Status 502 \/ res_out (deliver c e entry rq) = Status 504).
Proof. exact local_first_final. Qed.

(* "otherwise it forwards to one other node, and a request that has already been forwarded is never forwarded again - it
   is served by a local upstream of the receiving node or rejected with 502. Consequently stale or mutually inconsistent
   routing tables can never produce a forwarding loop"
   For EVERY combination of per-node views and placements (no hypothesis on [c] for the count), every entry node, HTTP and
   TCP route: at most two handler invocations, the trace has one of the six legal shapes, and what the second node does is
   serve locally (possibly timing out: 504) or answer 502. *)
Theorem C06_one_hop :
  forall (c : cluster) (e : env) (entry : nat) (rq : request),
    e_keep e = true ->
    let r := deliver c e entry rq in
    trace_ok (res_trace r) = true
    /\ invocations r <= 2
    /\ dials r <= invocations r
    /\ (wf_cluster c -> forall a addr b rest,
          res_trace r = EInvoke a :: EDialNode a addr :: EInvoke b :: rest ->
          (rest = [] \/ exists uid, rest = [EDialUp b uid])
          /\ ((exists u rs, res_out r = Served b u rs /\ registered_on c b u)
              \/ res_out r = Status 502 \/ res_out r = Status 504)).
Proof. exact one_hop_final. Qed.

(* a request carrying the forward marker never leaves the node it arrives at, with any fuel, any cluster, any transform *)
Theorem C06_forwarded_never_forwarded_again :
  forall (fuel : nat) (c : cluster) (e : env) (ni : nat) (rq : request),
    is_forwarded rq = true ->
    forall ev, In ev (res_trace (handle fuel c e ni rq)) -> match ev with EDialNode _ _ => False | _ => True end.
Proof. exact forwarded_stays_final. Qed.

(* "or request amplification": never more outgoing requests than handler invocations, and exactly one per invocation
   when the request reached an upstream *)
Theorem C06_no_amplification :
  forall (c : cluster) (e : env) (entry : nat) (rq : request),
    e_keep e = true ->
    let r := deliver c e entry rq in
    dials r <= invocations r /\ (forall u, res_up r = Some u -> dials r = invocations r /\ 1 <= invocations r).
Proof. exact no_amplification_final. Qed.

(* Finding H1: with the pinned transform `Connection: x-piko-forward` strips the marker at the first hop and a ring of
   stale beliefs produces a second inter-node hop (three handler invocations). *)
Theorem C06_refuted_pinned :
  exists (c : cluster) (e : env) (entry : nat) (rq : request),
    wf_cluster c /\ e_keep e = false /\ invocations (deliver c e entry rq) = 3.
Proof. exact c06_refuted_pinned. Qed.

Example C06_witness_repaired : invocations (deliver w_c3 (w_env true) 0 w_rq1) = 2.
Proof. exact c06_witness_repaired. Qed.
Example C06_example_two_hops :
  res_out (deliver x_c (w_env true) 0 x_rq) = Served 1 w_ue (mkResp 200 [("X-Up", "ue")] "ok")
  /\ res_trace (deliver x_c (w_env true) 0 x_rq) = [EInvoke 0; EDialNode 0 "B"; EInvoke 1; EDialUp 1 "ue"]
  /\ res_upreq (deliver x_c (w_env true) 0 x_rq) =
     Some (mkReq "POST" "/p%2Fq" (Some "x=1;y") "e.example.com:8000"
                 [("X-A", "1"); ("x-a", "2"); ("X-Piko-Forward", "true"); ("X-Forwarded-For", "127.0.0.1, 127.0.0.1")] "body").
Proof. exact x_delivery. Qed.
Example C06_example_wf : wf_cluster x_c. Proof. exact x_c_wf. Qed.

Print Assumptions C06_local_first.
Print Assumptions C06_one_hop.
Print Assumptions C06_forwarded_never_forwarded_again.
Print Assumptions C06_no_amplification.
Print Assumptions C06_refuted_pinned.
