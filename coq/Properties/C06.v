(* C06 - At most one inter-node hop; local upstreams are always preferred. *)
From Coq Require Import List String NArith ZArith Bool.
From Piko Require Import Base.Maps Base.Strs Proxy.Endpoint Proxy.Http Proxy.Route ProxyP.Final.
From Piko Require Import Proxy.Dynamic ProxyP.DynamicP.
Import ListNotations.
Open Scope string_scope. Open Scope list_scope.

(* "A node that has a local upstream for the endpoint serves the request locally" - for every environment (even the
   pinned transform), whatever the routing table of the node says: the trace is one handler invocation and one dial of a
   local upstream; no EDialNode. *)
Theorem C06_local_first :
  forall (c : cluster) (e : env) (entry : nat) (a : node) (rq : request) (us : list upstream),
    nth_error c entry = Some a -> pre_ok e rq ->
    lookup (addressed_endpoint rq) (n_local a) = Some us -> us <> [] ->
    exists u, In u us
      /\ res_trace (deliver c e entry rq) = [EInvoke entry; EDialUp entry (u_id u)]
      /\ res_up (deliver c e entry rq) = Some u
      /\ ((exists rs, res_out (deliver c e entry rq) = Served entry u rs)
          \/ res_out (deliver c e entry rq) = Status 502 \/ res_out (deliver c e entry rq) = Status 504).
Proof. exact local_first_final. Qed.

(* "otherwise it forwards to one other node, and a request that has already been forwarded is never forwarded again - it
   is served by a local upstream of the receiving node or rejected with 502. Consequently stale or mutually inconsistent
   routing tables can never produce a forwarding loop"
   For EVERY combination of per-node views and placements (no hypothesis on [c] for the count), every entry node, HTTP and
   TCP route: at most two handler invocations, the trace has one of the six legal shapes, and what the second node does is
   serve locally (possibly timing out: 504) or answer 502. *)
Theorem C06_one_hop :
  forall (c : cluster) (e : env) (entry : nat) (rq : request),
    e_keep e = true ->
    let r := deliver c e entry rq in
    trace_ok (res_trace r) = true
    /\ invocations r <= 2
    /\ dials r <= invocations r
    /\ (wf_cluster c -> forall a addr b rest,
          res_trace r = EInvoke a :: EDialNode a addr :: EInvoke b :: rest ->
          (rest = [] \/ exists uid, rest = [EDialUp b uid])
          /\ ((exists u rs, res_out r = Served b u rs /\ registered_on c b u)
              \/ res_out r = Status 502 \/ res_out r = Status 504)).
Proof. exact one_hop_final. Qed.

(* a request carrying the forward marker never leaves the node it arrives at, with any fuel, any cluster, any transform *)
Theorem C06_forwarded_never_forwarded_again :
  forall (fuel : nat) (c : cluster) (e : env) (ni : nat) (rq : request),
    is_forwarded rq = true ->
    forall ev, In ev (res_trace (handle fuel c e ni rq)) -> match ev with EDialNode _ _ => False | _ => True end.
Proof. exact forwarded_stays_final. Qed.

(* "or request amplification": never more outgoing requests than handler invocations, and exactly one per invocation
   when the request reached an upstream *)
Theorem C06_no_amplification :
  forall (c : cluster) (e : env) (entry : nat) (rq : request),
    e_keep e = true ->
    let r := deliver c e entry rq in
    dials r <= invocations r /\ (forall u, res_up r = Some u -> dials r = invocations r /\ 1 <= invocations r).
Proof. exact no_amplification_final. Qed.

(* Finding H1: with the pinned transform `Connection: x-piko-forward` strips the marker at the first hop and a ring of
   stale beliefs produces a second inter-node hop (three handler invocations). *)
Theorem C06_refuted_pinned :
  exists (c : cluster) (e : env) (entry : nat) (rq : request),
    wf_cluster c /\ e_keep e = false /\ invocations (deliver c e entry rq) = 3.
Proof. exact c06_refuted_pinned. Qed.

Example C06_witness_repaired : invocations (deliver w_c3 (w_env true) 0 w_rq1) = 2.
Proof. exact c06_witness_repaired. Qed.
Example C06_example_two_hops :
  res_out (deliver x_c (w_env true) 0 x_rq) = Served 1 w_ue (mkResp 200 [("X-Up", "ue")] "ok")
  /\ res_trace (deliver x_c (w_env true) 0 x_rq) = [EInvoke 0; EDialNode 0 "B"; EInvoke 1; EDialUp 1 "ue"]
  /\ res_upreq (deliver x_c (w_env true) 0 x_rq) =
     Some (mkReq "POST" "/p%2Fq" (Some "x=1;y") "e.example.com:8000"
                 [("X-A", "1"); ("x-a", "2"); ("X-Piko-Forward", "true"); ("X-Forwarded-For", "127.0.0.1, 127.0.0.1")] "body").
Proof. exact x_delivery. Qed.
Example C06_example_wf : wf_cluster x_c. Proof. exact x_c_wf. Qed.

(* ---- over time (Proxy/Dynamic.v): upstreams register and deregister between requests, listeners announce go-away, the
   proxies deregister an upstream whose dial answers ErrGone. The servers keep nothing else from one request to the next. ---- *)

(* every state reached by any history of connects, disconnects, go-aways, environment changes and requests is a cluster the
   theorems above apply to *)
Theorem C06_dynamic_wf :
  forall (ops : list dop) (s : dstate), wf_cluster (d_c s) ->
    wf_cluster (d_c (fst (drun s ops))) /\ wf_cluster (as_seen (fst (drun s ops))).
Proof. intros ops s H. split; [apply drun_wf, H|apply as_seen_wf, drun_wf, H]. Qed.

(* "serves the request locally", whatever happened before: after ANY history a node that holds a balancer for the addressed
   endpoint dials one of its members itself (one invocation, one dial, no EDialNode) - an earlier forward to another node, or
   anything else a server might remember, does not enter the decision *)
Theorem C06_dynamic_local_first :
  forall (s0 : dstate) (ops : list dop) (e : env) (entry : nat) (a : node) (rq : request) (us : list upstream),
  let s := fst (drun s0 ops) in
  nth_error (d_c s) entry = Some a -> pre_ok e rq ->
  lookup (addressed_endpoint rq) (n_local a) = Some us -> us <> [] ->
  let r := deliver (as_seen s) e entry rq in
  exists u, In u us
    /\ res_trace r = [EInvoke entry; EDialUp entry (u_id u)]
    /\ res_up r = Some (mask_up (d_gone s) u)
    /\ ((exists rs, res_out r = Served entry (mask_up (d_gone s) u) rs) \/ res_out r = Status 502 \/ res_out r = Status 504).
Proof. exact dyn_local_first. Qed.

(* at most one inter-node hop and no amplification for every request of every history *)
Theorem C06_dynamic_one_hop :
  forall (ops : list dop) (s : dstate), ops_keep ops ->
  Forall (fun x => match x with
                   | Some r => trace_ok (res_trace r) = true /\ invocations r <= 2 /\ dials r <= invocations r
                   | None => True end) (snd (drun s ops)).
Proof. exact dyn_one_hop. Qed.

(* a request whose dial is refused - in particular by an upstream that has announced go-away - is answered 502: not retried
   on another upstream, not passed on to another node (also when it arrived already forwarded) *)
Theorem C06_refused_dial_is_502 :
  forall (s : dstate) (e : env) (T : Z) (entry : nat) (a : node) (rq : request) (u : upstream),
  wf_cluster (d_c s) -> e_keep e = true ->
  (forall n, In n (d_c s) -> n_timeout n = T) -> (0 <= T)%Z ->
  nth_error (d_c s) entry = Some a -> route_of rq = RHttp ->
  permitted (e_token e) (addressed_endpoint rq) = true ->
  (is_ws_upgrade rq = false \/ announces_upgrade rq = true) ->
  let r := deliver (as_seen s) e entry rq in
  res_up r = Some u -> u_beh u = UDialFail ->
  res_out r = Status 502 /\ invocations r <= 2 /\ dials r <= invocations r.
Proof. exact dyn_refused_dial_is_502. Qed.

(* the dial of a go-away upstream deregisters exactly that upstream on the dialling node; every other outcome (any other dial
   error, a reset, a timeout, a served request) leaves every registry alone *)
Theorem C06_gone_deregistered :
  forall (s : dstate) (r : result) (u : upstream) (ni : nat),
  res_up r = Some u -> dialler (res_trace r) = Some ni -> is_gone (d_gone s) (u_id u) = true ->
  let s' := after_request s r in
  d_gone s' = d_gone s
  /\ (forall k, k <> ni -> nth_error (d_c s') k = nth_error (d_c s) k)
  /\ (forall n, nth_error (d_c s) ni = Some n ->
        exists n', nth_error (d_c s') ni = Some n' /\ n_view n' = n_view n /\ n_id n' = n_id n /\ n_addr n' = n_addr n
          /\ (forall ep, ep <> u_ep u -> lookup ep (n_local n') = lookup ep (n_local n))
          /\ (forall us, lookup (u_ep u) (n_local n') = Some us -> forall x, In x us -> u_id x <> u_id u)).
Proof. exact dyn_gone_deregistered. Qed.

Theorem C06_other_outcomes_keep_registry :
  forall (s : dstate) (r : result),
  (forall u, res_up r = Some u -> is_gone (d_gone s) (u_id u) = false) -> after_request s r = s.
Proof. exact dyn_other_outcomes_keep_registry. Qed.

(* the two histories the harness runs on the real servers (corpus-dyn-reconnect, corpus-dyn-goaway), computed by the model *)
Example C06_dynamic_reconnect_example :
  wf_cluster (d_c dx_reconnect)
  /\ map served_by (snd (drun dx_reconnect dx_reconnect_ops))
     = [Some (1, "ub"); None; Some (0, "ua"); Some (0, "ua"); None; Some (1, "ub")]
  /\ map (fun x => match x with Some r => invocations r | None => 0 end) (snd (drun dx_reconnect dx_reconnect_ops)) = [2; 0; 1; 1; 0; 2].
Proof. exact dyn_reconnect_example. Qed.

Example C06_dynamic_goaway_example :
  map status_of (snd (drun dx_goaway dx_goaway_ops)) = [None; Some 502%N; Some 502%N; None]
  /\ map served_by (snd (drun dx_goaway dx_goaway_ops)) = [None; None; None; Some (2, "uc")]
  /\ map (fun x => match x with Some r => invocations r | None => 0 end) (snd (drun dx_goaway dx_goaway_ops)) = [0; 2; 2; 2]
  /\ registered_anywhere (d_c (fst (drun dx_goaway dx_goaway_ops))) "ug" = false
  /\ registered_anywhere (d_c (fst (drun dx_goaway dx_goaway_ops))) "uc" = true.
Proof. exact dyn_goaway_example. Qed.

Print Assumptions C06_local_first.
Print Assumptions C06_one_hop.
Print Assumptions C06_forwarded_never_forwarded_again.
Print Assumptions C06_no_amplification.
Print Assumptions C06_refuted_pinned.
Print Assumptions C06_dynamic_wf.
Print Assumptions C06_dynamic_local_first.
Print Assumptions C06_dynamic_one_hop.
Print Assumptions C06_refused_dial_is_502.
Print Assumptions C06_gone_deregistered.
Print Assumptions C06_other_outcomes_keep_registry.
