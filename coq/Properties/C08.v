(* C08 - HTTP proxying is transparent and gateway failures map to 400/502/504. *)
From Coq Require Import List String NArith ZArith Bool.
From Piko Require Import Base.Maps Base.Strs Proxy.Endpoint Proxy.Http Proxy.Route ProxyP.Final.
Import ListNotations.
Open Scope string_scope. Open Scope list_scope.

(* "A proxied HTTP request reaches the upstream with its method, path, query, Host, end-to-end headers and body unchanged,
   and the upstream's status, headers and body reach the client unchanged, whether served locally or through another node."
   [req_transparent]: method, raw path, raw query, body equal; Host equal when the client sent a non-empty Host (an empty
   Host leaves as the endpoint id - observed quirk of Director + http.Transport); for every end-to-end header name the list
   of values is the client's. [resp_transparent]: status, body, end-to-end headers equal. One or two hops. *)
Theorem C08_transparent :
  forall (c : cluster) (e : env) (entry : nat) (rq : request) (k : nat) (u : upstream) (rs : response),
    e_keep e = true -> route_of rq = RHttp ->
    res_out (deliver c e entry rq) = Served k u rs ->
    exists rq', res_upreq (deliver c e entry rq) = Some rq'
                /\ req_transparent rq rq' /\ resp_transparent (e_respond e u rq') rs.
Proof. exact transparent_final. Qed.

(* "When piko itself must answer it returns 400 if no endpoint can be determined, 502 if no upstream is available or it
   cannot be reached, and 504 if the upstream does not answer within the configured timeout (not applied to WebSocket
   upgrades) - never a hang or a fabricated success."
   One configured timeout T >= 0 on every node (0 = disabled); the token check passes (401 is C10's); the request is not a
   websocket upgrade or announces its Upgrade header in Connection (RFC 7230 6.7; see C08_example_unannounced_upgrade).
   [res_up r] = the upstream the request was handed to, if any. A [Served] outcome carries the upstream's own response
   (C08_transparent), so a 2xx is never fabricated: piko's own answers are exactly 400/502/504. *)
Theorem C08_status_table :
  forall (c : cluster) (e : env) (T : Z) (entry : nat) (a : node) (rq : request),
    wf_cluster c -> e_keep e = true ->
    (forall n, In n c -> n_timeout n = T) -> (0 <= T)%Z ->
    nth_error c entry = Some a -> route_of rq = RHttp ->
    permitted (e_token e) (addressed_endpoint rq) = true ->
    (is_ws_upgrade rq = false \/ announces_upgrade rq = true) ->
    let r := deliver c e entry rq in
    (res_out r = Status 400 <-> addressed_endpoint rq = "")
    /\ (res_out r = Status 502 <->
        addressed_endpoint rq <> "" /\
        (res_up r = None \/ exists u, res_up r = Some u /\ (u_beh u = UDialFail \/ u_beh u = UReset)))
    /\ (res_out r = Status 504 <->
        exists u d, res_up r = Some u /\ u_beh u = UAnswer d /\ T <> 0%Z /\ (T <= d)%Z /\ is_ws_upgrade rq = false)
    /\ (forall k u rs, res_out r = Served k u rs ->
        res_up r = Some u /\ exists d, u_beh u = UAnswer d /\ (T = 0%Z \/ (d < T)%Z \/ is_ws_upgrade rq = true))
    /\ (res_out r = Status 400 \/ res_out r = Status 502 \/ res_out r = Status 504
        \/ exists k u rs, res_out r = Served k u rs).
Proof. exact status_table_final. Qed.

(* "never a hang": [deliver] is a total function (every input has exactly one outcome, last clause above), and whenever the
   entry node applies its timeout the answer is available no later than that timeout - for any cluster, views, transform. *)
Theorem C08_total :
  forall (c : cluster) (e : env) (entry : nat) (n : node) (rq : request),
    nth_error c entry = Some n -> applies_timeout n rq = true -> (0 <= n_timeout n)%Z ->
    (res_elapsed (deliver c e entry rq) <= n_timeout n)%Z.
Proof. exact total_final. Qed.

Example C08_example_wf : wf_cluster x_c. Proof. exact x_c_wf. Qed.
Example C08_example_request :
  pre_ok (w_env true) x_rq /\ is_forwarded x_rq = false /\ route_of x_rq = RHttp
  /\ (is_ws_upgrade x_rq = false \/ announces_upgrade x_rq = true).
Proof. exact x_pre_ok. Qed.
Example C08_example_two_hops :
  res_out (deliver x_c (w_env true) 0 x_rq) = Served 1 w_ue (mkResp 200 [("X-Up", "ue")] "ok")
  /\ res_trace (deliver x_c (w_env true) 0 x_rq) = [EInvoke 0; EDialNode 0 "B"; EInvoke 1; EDialUp 1 "ue"]
  /\ res_upreq (deliver x_c (w_env true) 0 x_rq) =
     Some (mkReq "POST" "/p%2Fq" (Some "x=1;y") "e.example.com:8000"
                 [("X-A", "1"); ("x-a", "2"); ("X-Piko-Forward", "true"); ("X-Forwarded-For", "127.0.0.1, 127.0.0.1")] "body").
Proof. exact x_delivery. Qed.
(* why the table asks for an announced upgrade: the unannounced Upgrade header is dropped at the first hop *)
Example C08_example_unannounced_upgrade :
  res_out (deliver x_c_slow (w_env true) 0 (mkReq "GET" "/" None "e.example.com" [("Upgrade", "websocket")] "")) = Status 504
  /\ (exists rs, res_out (deliver x_c_slow (w_env true) 0
                   (mkReq "GET" "/" None "e.example.com" [("Upgrade", "WebSocket"); ("Connection", "Upgrade")] "")) = Served 1 x_slow rs)
  /\ (exists rs, res_out (deliver x_c_slow (w_env true) 1 (mkReq "GET" "/" None "e.example.com" [("Upgrade", "websocket")] "")) = Served 1 x_slow rs).
Proof. exact x_unannounced_upgrade. Qed.

Print Assumptions C08_transparent.
Print Assumptions C08_status_table.
Print Assumptions C08_total.
