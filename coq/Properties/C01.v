(* C01 - Requests reach only upstreams of the addressed endpoint, from any node. *)
From Coq Require Import List String Ascii NArith ZArith Bool.
From Piko Require Import Base.Maps Base.Strs Proxy.Endpoint Proxy.Http Proxy.Route ProxyP.Final.
From Piko Require Upstream.Manager Compose.EndToEnd Compose.Settled Compose.Example.
From Piko Require Import Proxy.UrlPath ProxyP.UrlPathP.
Import ListNotations.
Open Scope string_scope. Open Scope list_scope.

(* "An HTTP request or tunnelled TCP connection addressed to endpoint E and arriving at any server node is delivered
   only to an upstream that is listening on E (on whichever node that upstream is connected to) or is refused with a
   gateway error; it is never delivered to an upstream of a different endpoint."
   For every cluster of any size [c], any placement of upstreams (wf_cluster: built by AddConn, one listener per address),
   any - even mutually inconsistent - routing views, any entry node, any addressing mode (Host, x-piko-endpoint, TCP path)
   and any oracle choices inside [e]. [e_keep e = true] = the code as it stands (fix 5024de3). *)
Theorem C01_only_addressed_endpoint :
  forall (c : cluster) (e : env) (entry : nat) (rq : request),
    wf_cluster c -> e_keep e = true -> entry < List.length c ->
    match res_out (deliver c e entry rq) with
    | Served k u _ => u_ep u = addressed_endpoint rq /\ registered_on c k u
    | Status s => In s [400; 401; 502; 504]%N
    end.
Proof. exact only_addressed_endpoint_final. Qed.

(* "Once routing information has settled, every node serves E if some reachable node has an upstream for E, and
   answers 502 if none has."  [settled c]: every node's view equals the truth about the reachable nodes (the conclusion
   of C04 for every pair). The request is a client request (not already marked forwarded) that passes the endpoint and
   token checks. [reaches]: handed to an upstream registered for E; with every upstream answering in time ([healthy]) that
   is exactly "served". *)
Theorem C01_settled :
  forall (c : cluster) (e : env) (entry : nat) (a : node) (rq : request),
    wf_cluster c -> settled c -> e_keep e = true ->
    nth_error c entry = Some a -> pre_ok e rq -> is_forwarded rq = false ->
    let ep := addressed_endpoint rq in
    let r := deliver c e entry rq in
    ((exists m, In m c /\ has_local m ep = true) -> reaches c ep r)
    /\ ((forall m, In m c -> has_local m ep = false) -> r = fin (Status 502) [EInvoke entry])
    /\ (healthy c ->
        ((exists m, In m c /\ has_local m ep = true) <->
         (exists k u rs, res_out r = Served k u rs /\ u_ep u = ep /\ registered_on c k u))
        /\ ((forall m, In m c -> has_local m ep = false) <-> res_out r = Status 502)).
Proof. exact settled_final. Qed.

(* [settled] is not just assumed: it follows from the lower layers (Compose/EndToEnd.v, Compose/Settled.v). A [site] is
   one server node seen through every model (proxy registry, upstream manager, gossip state, watcher fold, syncer
   table). [glued]: the layers of one node fit together the way syncer.go and manager.go build them (the node's own
   gossip state is the one its manager writes; its routing table follows its gossip state: the conclusions of
   C04_fold and C14; the manager state is reachable: C05/C15's invariant). [converged]: every view of another member
   holds exactly that member's own entries and nobody is held as left/unreachable (C03_converged_views with the id
   closure invariant). Then the proxy model's cluster is settled ... *)
Theorem C01_settled_from_convergence :
  forall addr_of sites,
  (forall a, In a sites -> Compose.Settled.glued addr_of a) ->
  (forall a, In a sites -> Compose.Settled.converged sites a) ->
  NoDup (map Compose.Settled.st_id sites) ->
  settled (map Compose.Settled.pnode_of sites).
Proof. exact Compose.Settled.settled_from_convergence. Qed.

(* ... and therefore: a client request for endpoint E entering at ANY node is handed to an upstream registered for E
   whenever some node's MANAGER holds one (C05: registered = connected), and is answered 502 when none does. *)
Theorem C01_end_to_end :
  forall addr_of sites,
  (forall a, In a sites -> Compose.Settled.glued addr_of a) ->
  (forall a, In a sites -> Compose.Settled.converged sites a) ->
  NoDup (map Compose.Settled.st_id sites) ->
  wf_cluster (map Compose.Settled.pnode_of sites) ->
  forall (e : env) (entry : nat) (pa : node) (rq : request),
  e_keep e = true -> nth_error (map Compose.Settled.pnode_of sites) entry = Some pa -> pre_ok e rq -> is_forwarded rq = false ->
  let ep := addressed_endpoint rq in
  let r := deliver (map Compose.Settled.pnode_of sites) e entry rq in
  ((exists b, In b sites /\ (0 < Upstream.Manager.registered_count ep (Compose.Settled.st_ms b))%nat) ->
     reaches (map Compose.Settled.pnode_of sites) ep r) /\
  ((forall b, In b sites -> Upstream.Manager.registered_count ep (Compose.Settled.st_ms b) = 0%nat) ->
     r = fin (Status 502) [EInvoke entry]).
Proof. exact Compose.Settled.end_to_end. Qed.

(* the hypotheses are satisfiable (Compose/Example.v): a two-node cluster whose sites are built by RUNNING the component
   models - manager histories (two upstreams for "e" on b, one for "f" connected and disconnected again), the gossip
   receiver applying the peer's full delta, the watcher fold, the syncer - is glued and converged, hence settled; and
   the computed proxy run does what C01_end_to_end says: "e" entering at a is served by an upstream on b, "f" gets 502 *)
Example C01_end_to_end_example :
  (forall a, In a Compose.Example.ex_sites -> Compose.Settled.glued Compose.Example.ex_addr_of a) /\
  (forall a, In a Compose.Example.ex_sites -> Compose.Settled.converged Compose.Example.ex_sites a) /\
  NoDup (map Compose.Settled.st_id Compose.Example.ex_sites) /\
  settled (map Compose.Settled.pnode_of Compose.Example.ex_sites) /\
  (exists rs, res_out (deliver (map Compose.Settled.pnode_of Compose.Example.ex_sites) Compose.Example.ex_env 0
                               (Compose.Example.ex_rq "e.example.com")) = Served 1 (mkU "u1" "e" (UAnswer 0)) rs) /\
  res_out (deliver (map Compose.Settled.pnode_of Compose.Example.ex_sites) Compose.Example.ex_env 0
                   (Compose.Example.ex_rq "f.example.com")) = Status 502.
Proof.
  destruct Compose.Example.example_hypotheses as [H1 [H2 H3]]. destruct Compose.Example.example_runs as [R1 [R2 _]].
  split; [exact H1|]. split; [exact H2|]. split; [exact H3|]. split; [exact Compose.Example.example_settled|]. split; [exact R1|exact R2].
Qed.

(* the same for the TCP route /_piko/v1/tcp/:id : the endpoint is the path parameter, whatever Host and
   x-piko-endpoint say *)
Theorem C01_tcp_route :
  forall (c : cluster) (e : env) (entry : nat) (rq : request) (seg : string),
    wf_cluster c -> e_keep e = true -> entry < List.length c ->
    r_method rq = "GET" -> r_path rq = (tcp_prefix ++ seg)%string -> seg <> "" -> contains_byte "/" seg = false ->
    addressed_endpoint rq = seg /\
    match res_out (deliver c e entry rq) with
    | Served k u _ => u_ep u = seg /\ registered_on c k u
    | Status s => In s [400; 401; 502; 504]%N
    end.
Proof. exact tcp_route_final. Qed.

(* Finding H2: the first theorem is FALSE of the pinned forwarding step (hop-by-hop removal after the control headers
   were set, no keepControlHeaders): x-piko-endpoint: e, Host: other.example.com, Connection: x-piko-endpoint entering at a
   node that forwards is served by an upstream of endpoint "other". *)
Theorem C01_refuted_pinned :
  exists (c : cluster) (e : env) (entry : nat) (rq : request) (k : nat) (u : upstream) (rs : response),
    wf_cluster c /\ e_keep e = false /\ entry < List.length c /\
    res_out (deliver c e entry rq) = Served k u rs /\ u_ep u <> addressed_endpoint rq.
Proof. exact c01_refuted_pinned. Qed.

(* the hypotheses are satisfiable: a two-node cluster built by AddConn whose views equal the truth, every upstream
   healthy, and a request that passes the checks; and the H2 witness is refused by the code as it stands *)
Example C01_example_wf : wf_cluster x_c. Proof. exact x_c_wf. Qed.
Example C01_example_settled : settled x_c. Proof. exact x_c_settled. Qed.
Example C01_example_healthy : healthy x_c. Proof. exact x_c_healthy. Qed.
Example C01_example_request :
  pre_ok (w_env true) x_rq /\ is_forwarded x_rq = false /\ route_of x_rq = RHttp
  /\ (is_ws_upgrade x_rq = false \/ announces_upgrade x_rq = true).
Proof. exact x_pre_ok. Qed.
Example C01_witness_repaired : res_out (deliver w_c2 (w_env true) 0 w_rq2) = Status 502.
Proof. exact c01_witness_repaired. Qed.

(* "a tunnelled TCP connection addressed to endpoint E ... is never delivered to an upstream of a different endpoint" - on
   the way from the client to the route. client.Dialer (and client.Upstream for a listen) put the endpoint id into the URL
   path; url.URL.String() escapes it, the server's net/http decodes the request target and gin matches
   `/_piko/v1/tcp/:endpointID` (Proxy/UrlPath.v models net/url's escape / unescape in path mode and the route match). For
   EVERY byte string: what the server decodes is what the client named (C01_url_roundtrip); the id is routed under its own
   name or not at all (C01_dialled_only_named), and an id that is one non-empty path segment is routed
   (C01_dialled_is_named). The variant that appends the id to the rendered URL (seeded change C01-14) reaches another
   endpoint's route. Tied to the real client and the real request parser + gin on ~190 ids per run. *)
Theorem C01_url_roundtrip : forall s, unescape_path (escape_path s) = Some s.
Proof. exact unescape_escape. Qed.

Theorem C01_dialled_only_named : forall prefix id e, dialled_endpoint prefix id = Some e -> e = id.
Proof. exact dialled_only_named. Qed.

Theorem C01_dialled_is_named : forall prefix id, has_slash id = false -> id <> "" -> dialled_endpoint prefix id = Some id.
Proof. exact dialled_is_named. Qed.

Theorem C01_url_concat_variant_refuted :
  dialled_endpoint_concat tcp_prefix "db?replica" = Some "db" /\ dialled_endpoint tcp_prefix "db?replica" = Some "db?replica" /\
  dialled_endpoint_concat tcp_prefix "cach%65" = Some "cache" /\ dialled_endpoint tcp_prefix "cach%65" = Some "cach%65" /\
  escape_path (tcp_prefix ++ "a b#c?d%") = "/_piko/v1/tcp/a%20b%23c%3Fd%25".
Proof. exact concat_variant_refuted. Qed.

(* the rendered path contains neither '?' nor '#', so the request parser's split of the target (path / query / fragment)
   leaves it whole: the endpoint the server routes to through that split is dialled_endpoint *)
Theorem C01_rendered_path_not_split :
  (forall s, cut_at_query (escape_path s) = escape_path s) /\
  (forall prefix id, match unescape_path (cut_at_query (escape_path (prefix ++ id))) with
                     | Some path => route_param prefix path | None => None end = dialled_endpoint prefix id).
Proof. exact (conj escaped_not_split dialled_through_parser). Qed.

Print Assumptions C01_only_addressed_endpoint.
Print Assumptions C01_settled.
Print Assumptions C01_tcp_route.
Print Assumptions C01_refuted_pinned.
Print Assumptions C01_settled_from_convergence.
Print Assumptions C01_end_to_end.
Print Assumptions C01_end_to_end_example.
Print Assumptions C01_url_roundtrip.
Print Assumptions C01_dialled_only_named.
Print Assumptions C01_dialled_is_named.
Print Assumptions C01_url_concat_variant_refuted.
Print Assumptions C01_rendered_path_not_split.
