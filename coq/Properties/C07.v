(* C07 - Tunnelled connections are faithful byte streams with close propagation. *)
From Coq Require Import List Bool Arith.
From Piko Require Import Stream.WsConn Stream.Pipe Stream.CopyPair
                         StreamP.WsConnP StreamP.PipeP StreamP.CopyPairP StreamP.StreamThms StreamP.PipeLive.
From Piko Require Import Stream.HalfClose StreamP.HalfCloseP.
Import ListNotations.

(* "Bytes written at one end ... arrive at the other end exactly once, in order and unmodified, for every
   combination of write sizes, read-buffer sizes ..." - the websocket adapter, reading side:
   for every list of binary messages (including empty ones) followed by the peer's close, every list of
   read-buffer sizes > 0 and every oracle (how many bytes the gorilla message reader returns per call and
   whether it reports EOF together with the last bytes),
   (1) the concatenation of the bytes returned is the corresponding prefix of the concatenation of the messages,
   (2) no Read returns (0, nil),
   (3) a Read returns net.ErrClosed exactly when everything before the close has been delivered,
   (4) the only results are data with a nil error or net.ErrClosed without data, (5) never more than len(buf) bytes,
   (6) with more reads than bytes everything is delivered and the close is observed. *)
Theorem C07_read_stream :
  forall (A : Type) (msgs : list (list A)) (rs : list (nat * nat * bool)),
  Forall (fun x => 0 < fst (fst x)) rs ->
  let outs := fst (run_reads (mkConn None (map (@Bin A) msgs ++ [CloseFrame])) rs) in
  let got := concat (map (@r_data A) outs) in
  got = firstn (length got) (concat msgs)
  /\ Forall (fun o => ~ (r_data o = [] /\ r_err o = ENone)) outs
  /\ (forall pre o post, outs = pre ++ o :: post ->
        (r_err o = EClosed <-> concat (map (@r_data A) pre) = concat msgs))
  /\ Forall (fun o => (r_err o = ENone \/ r_err o = EClosed) /\ (r_err o = EClosed -> r_data o = [])) outs
  /\ Forall2 (fun x o => length (r_data o) <= fst (fst x)) rs outs
  /\ (length (concat msgs) < length rs -> got = concat msgs /\ Exists (fun o => r_err o = EClosed) outs).
Proof. exact read_stream. Qed.

(* the hypothesis is satisfiable and the statement is not vacuous: three messages (one empty), buffers 2,1,5,3,
   oracles asking for 7, 0, 1 and 9 bytes *)
Example C07_read_stream_example :
  map (fun o => (r_data o, r_err o))
      (fst (run_reads (mkConn None (map (@Bin nat) [[1;2;3]; []; [4]] ++ [CloseFrame]))
                      [(2,7,false); (1,0,true); (5,1,false); (3,9,false); (4,1,false)]))
  = [([1;2], ENone); ([3], ENone); ([4], ENone); ([], EClosed); ([], EClosed)].
Proof. vm_compute. reflexivity. Qed.

(* "unmodified": Conn.Read never inspects payload bytes - it commutes with every renaming of bytes
   (this is also what lets the correspondence check run the model on stream positions) *)
Theorem C07_read_natural :
  forall (A B : Type) (f : A -> B) (c : conn A) (n k : nat) (e : bool),
  read (conn_map f c) n k e = (let (c', r) := read c n k e in (conn_map f c', rres_map f r)).
Proof. exact read_map. Qed.

(* "any chunking of writes at one end and any chunking of reads at the other preserves the byte sequence
   exactly once, in order": one connection, any interleaving of the writer's Write/Close with the reader's
   Read calls (a Read that would block is a no-op). [accepted ops] = the payloads of the writes before the
   first close; in flight = pend_all.  Second part: any chunking ws of a byte sequence written and then
   closed, read back with any buffer sizes and oracles, yields exactly that sequence and then the close. *)
Theorem C07_write_read_roundtrip :
  forall (A : Type),
  (forall (ops : list (pop A)),
     let s := prun (pinit A 0) ops in
     p_written s = accepted ops
     /\ accepted ops = p_delivered s ++ pend_all (p_chs s)
     /\ concat (map (@r_data A) (rev (p_outs s))) = p_delivered s
     /\ Forall (fun o => r_err o = ENone \/ r_err o = EClosed) (p_outs s)
     /\ (Exists (fun o => r_err o = EClosed) (p_outs s) -> p_delivered s = accepted ops)
     /\ (Forall (fun o => match o with PRead n _ _ => 0 < n | _ => True end) ops ->
         Forall (fun o => ~ (r_data o = [] /\ r_err o = ENone)) (p_outs s)))
  /\
  (forall (ws : list (list A)) (rs : list (nat * nat * bool)),
     Forall (fun x => 0 < fst (fst x)) rs -> length (concat ws) < length rs ->
     let outs := fst (run_reads (push_close (fold_left (@write A) ws (mkConn None []))) rs) in
     concat (map (@r_data A) outs) = concat ws /\ Exists (fun o => r_err o = EClosed) outs).
Proof. intro A. split; [exact (pipeline_stream (A:=A) 0)|exact (@roundtrip A)]. Qed.

Example C07_roundtrip_example :
  let s := prun (pinit nat 0)
             [PWrite [1;2;3]; PRead 2 9 false; PWrite []; PWrite [4;5]; PRead 8 8 true; PRead 1 1 false;
              PClose; PWrite [6]; PRead 9 9 false; PRead 1 1 false] in
  (p_delivered s, map (fun o => r_err o) (rev (p_outs s)), accepted
             [PWrite [1;2;3]; PRead 2 9 false; PWrite []; PWrite [4;5]; PRead 8 8 true; PRead 1 1 false;
              PClose; PWrite [6]; PRead 9 9 false; PRead 1 1 false])
  = ([1;2;3;4;5], [ENone; ENone; ENone; ENone; EClosed], [1;2;3;4;5]).
Proof. vm_compute. reflexivity. Qed.

(* "through one or two server nodes ... composition through copy stages preserves it": a chain of hops+1
   channels joined by hops copiers (io.Copy loops with the deferred Close of the destination), every
   schedule of source writes/close, copier iterations (any buffer size, any oracle) and sink reads.
   hops = 1: dialer -> node -> listener; hops = 2: through two nodes; forward proxy and agent add two more. *)
Theorem C07_two_hops :
  forall (A : Type) (hops : nat) (ops : list (pop A)),
  let s := prun (pinit A hops) ops in
  p_written s = accepted ops
  /\ accepted ops = p_delivered s ++ pend_all (p_chs s)
  /\ concat (map (@r_data A) (rev (p_outs s))) = p_delivered s
  /\ Forall (fun o => r_err o = ENone \/ r_err o = EClosed) (p_outs s)
  /\ (Exists (fun o => r_err o = EClosed) (p_outs s) -> p_delivered s = accepted ops)
  /\ (Forall (fun o => match o with PRead n _ _ => 0 < n | _ => True end) ops ->
      Forall (fun o => ~ (r_data o = [] /\ r_err o = ENone)) (p_outs s)).
Proof. exact pipeline_stream. Qed.

Example C07_two_hops_example :
  let s := prun (pinit nat 2)
             [PWrite [1;2;3]; PCopy 0 2 2 false; PWrite [4]; PClose; PCopy 1 8 8 false; PRead 1 1 false;
              PCopy 0 8 8 false; PCopy 0 8 8 false; PCopy 0 8 8 false; PCopy 1 8 1 false; PCopy 1 8 8 false;
              PRead 8 8 false; PRead 8 8 false; PCopy 1 8 8 false; PRead 8 8 false; PRead 8 8 false] in
  (p_delivered s, map (fun o => r_err o) (rev (p_outs s)), pend_all (p_chs s))
  = ([1;2;3;4], [ENone; ENone; ENone; ENone; EClosed], []).
Proof. vm_compute. reflexivity. Qed.

(* "arrive at the other end ... Closing either end is observed as end-of-stream at the other end": the chain
   never gets stuck with bytes in it. From every state reached by any schedule there is a continuation made
   only of copier iterations and sink reads (non-empty buffers) after which the sink has received exactly what
   the source wrote, and - if the source has closed - has also been told so (net.ErrClosed / EOF). *)
Theorem C07_two_hops_live :
  forall (A : Type) (hops : nat) (ops : list (pop A)),
  let s := prun (pinit A hops) ops in
  exists more,
    Forall (fun o => match o with PCopy _ n _ _ => 0 < n | PRead n _ _ => 0 < n | _ => False end) more
    /\ p_delivered (prun s more) = accepted ops
    /\ (head_closed (p_chs s) = true -> Exists (fun o => r_err o = EClosed) (p_outs (prun s more))).
Proof. exact pipeline_live. Qed.

(* "Closing either end is observed as end-of-stream at the other end and releases both legs": in the copy
   pair, from every reachable state, once either connection is closed (by its remote peer or locally)
   (a) every continuation is bounded: the copiers make at most measure(s1) + 3 * (bytes the peers still send)
       moves, (b) every maximal continuation - no copier can move - has both copiers finished and both
       connections closed, whatever the peers do meanwhile, (c) such a continuation exists. *)
Theorem C07_close_propagates :
  forall (A : Type) (s : state A) (a : act A) (s1 : state A),
  reachable s -> is_close a = true -> step s a = Some s1 ->
  (forall acts s2, run s1 acts = Some s2 -> count_copier acts + measure s2 <= measure s1 + 3 * env_bytes acts)
  /\ (forall acts s2, run s1 acts = Some s2 -> stuck s2 = true -> final s2 = true)
  /\ (exists acts s2, Forall (fun a => is_copier a = true) acts /\ run s1 acts = Some s2
                      /\ stuck s2 = true /\ final s2 = true).
Proof. exact close_propagates. Qed.

(* the hypotheses are satisfiable in a non-trivial state: data in flight in both directions, copier A inside
   Write, then the downstream peer disappears *)
Example C07_close_example :
  exists s s1, reachable s /\ step s (AEnvClose X) = Some s1
               /\ ta s = Writing [1;2] /\ e_in (cy s) = [7;8;9] /\ final s1 = false.
Proof.
  exists (mkSt (mkEnd [3] [] [1;2;3] false false) (mkEnd [7;8;9] [] [7;8;9] false false) (Writing [1;2]) Reading).
  eexists. split; [|split; [vm_compute; reflexivity|repeat split]].
  apply (run_reachable [AEnvWrite X [1;2;3]; AEnvWrite Y [7;8;9]; ACopier X 2 false] (reach_init nat)).
  vm_compute. reflexivity.
Qed.

(* both directions concurrently ("direction interleavings"): in every reachable state of the pair each peer
   has received a prefix of what the other peer sent, and while a copier is in its loop nothing is missing *)
Theorem C07_pair_streams :
  forall (A : Type) (s : state A),
  reachable s ->
  is_prefix (e_out (cy s)) (e_recv (cx s)) /\ is_prefix (e_out (cx s)) (e_recv (cy s))
  /\ (ta s = Reading -> e_recv (cx s) = e_out (cy s) ++ e_in (cx s))
  /\ (tb s = Reading -> e_recv (cy s) = e_out (cx s) ++ e_in (cy s)).
Proof. exact pair_streams. Qed.

(* ... "and releases both legs" is what is lost when the copier that forwards the client's bytes only shuts down the writing
   side of the service connection at the end of its copy (the seeded change C07-11 in agent/tcpproxy): the client sends three
   bytes and closes, the service has received them and seen end-of-stream but neither closes nor writes - the variant pair
   (Stream/HalfClose.v) is stuck with neither connection closed and copier B still in its Read, whereas the real pair, given
   the copiers' remaining moves, ends with both legs released. *)
Theorem C07_half_close_variant_refuted :
  (exists s, run_hc (init nat) hc_acts = Some s /\ stuck_hc s = true /\ final s = false /\
             e_lclosed (cy s) = false /\ e_lclosed (cx s) = false /\ is_done (tb s) = false /\ e_out (cy s) = [1; 2; 3]) /\
  (exists s, run (init nat) (hc_acts ++ [ACopier Y 1 false; ACopier Y 1 false]) = Some s /\ stuck s = true /\ final s = true /\
             e_out (cy s) = [1; 2; 3]).
Proof. exact (conj half_close_refuted real_pair_releases). Qed.

Print Assumptions C07_read_stream.
Print Assumptions C07_read_natural.
Print Assumptions C07_write_read_roundtrip.
Print Assumptions C07_two_hops.
Print Assumptions C07_two_hops_live.
Print Assumptions C07_close_propagates.
Print Assumptions C07_pair_streams.
Print Assumptions C07_half_close_variant_refuted.
