(* C15 - Upstream selection is valid and round-robin fair.
   Model: Upstream/Balancer.v (loadBalancer), Upstream/Manager.v (LoadBalancedManager + cluster.State + syncer + gossip).
   Vocabulary (UpstreamP/ManagerP.v): [registered e ops] = the upstreams connected for endpoint e according to the
   connect/disconnect history alone; [mrun_sel e s ops] = run ops from s collecting the results of the selections for e;
   [untouched e ops] = ops contain no connect/disconnect for e; [sel_count/add_count/rem_count e ops] = number of
   selections / connects / disconnects for e in ops. *)
From Coq Require Import List String NArith ZArith Bool Arith Permutation.
From Piko Require Import Base.Maps Base.Strs Gossip.Types Gossip.Local Upstream.Balancer Upstream.Manager.
From Piko Require Import UpstreamP.BalancerP UpstreamP.ManagerP UpstreamP.Statements UpstreamP.ChurnP.
Import ListNotations.
Open Scope string_scope. Open Scope list_scope. Open Scope nat_scope.

(* "additions or removals at any point never crash the selector": after any add/remove/next sequence the cursor is in
   range (or the balancer is empty), and Next on a non-empty balancer returns one of its upstreams (no nil, no index
   out of range) *)
Theorem C15_inv_balancer : forall ops,
  let b := fst (lb_run lb_empty ops) in nxt b < List.length (ups b) \/ ups b = [].
Proof. exact c15_inv_balancer. Qed.

Theorem C15_next_never_nil : forall ops,
  let b := fst (lb_run lb_empty ops) in ups b <> [] -> exists u, fst (lb_next b) = Some u /\ In u (ups b).
Proof. exact c15_next_never_nil. Qed.

(* ... and every balancer stored in the manager is non-empty with its cursor in range, after any op sequence *)
Theorem C15_inv : forall id g p a ops e b,
  lookup e (m_lbs (mrun (minit id g p a) ops)) = Some b -> ups b <> [] /\ nxt b < List.length (ups b).
Proof. exact c15_inv. Qed.

Theorem C15_select_never_nil : forall id g p a ops e allow,
  fst (select e allow (mrun (minit id g p a) ops)) <> SNil.
Proof. exact c15_select_never_nil. Qed.

(* "Selecting an upstream for an endpoint returns only an upstream currently registered for exactly that endpoint ...;
   a request that may not be forwarded never receives a remote node": a local result is connected for exactly e by
   the history's own bookkeeping; a remote node is returned only if allow = true, nothing is connected locally for e,
   and the node is an active remote node (not ourselves) advertising e with a positive count; no upstream is returned
   only when nothing is connected locally and (forwarding is not allowed or no such node exists) *)
Theorem C15_valid : forall id g p a ops e allow,
  let s := mrun (minit id g p a) ops in
  match fst (select e allow s) with
  | SLocal u => In u (registered e ops)
  | SNil => False
  | SRemote c =>
      allow = true /\ lookup e (m_lbs s) = None /\ registered e ops = [] /\ c <> [] /\
      forall n, In n c ->
        n <> m_local s /\
        exists nd, lookup n (m_remote s) = Some nd /\ r_status nd = statusActive /\
                   exists k, lookup e (r_eps nd) = Some k /\ (0 < k)%Z
  | SNone => lookup e (m_lbs s) = None /\ registered e ops = [] /\ (allow = false \/ candidates e s = [])
  end.
Proof. exact c15_valid. Qed.

(* "never one that has been removed": an upstream connected at most once, then disconnected and not connected again,
   is never selected, whatever else happens afterwards *)
Theorem C15_removed_not_selected : forall id g p a ops1 ops2 u e allow,
  count_occ N.eq_dec (registered e ops1) u <= 1 ->
  (forall o, In o ops2 -> o <> MAdd u e) ->
  fst (select e allow (mrun (minit id g p a) (ops1 ++ MRemove u e :: ops2))) <> SLocal u.
Proof. exact c15_removed_not_selected. Qed.
Example C15_removed_not_selected_hyp :
  count_occ N.eq_dec (registered "e" [MAdd 1 "e"; MAdd 2 "e"; MAdd 1 "e1"]) 1%N <= 1 /\
  (forall o, In o [MSelect "e" true; MAdd 1 "e1"; MRemove 1 "e"] -> o <> MAdd 1%N "e").
Proof. split; [vm_compute; auto|]. intros o [H|[H|[H|[]]]]; subst; discriminate. Qed.

(* "With a stable set of n local upstreams any n consecutive selections return each of them once": balancer level, for
   any reachable balancer and a window of n selections starting after any number k of earlier selections *)
Theorem C15_round_robin_balancer : forall ops k,
  let b := fst (lb_run lb_empty ops) in
  ups b <> [] ->
  Permutation (snd (lb_nexts (List.length (ups b)) (fst (lb_nexts k b)))) (map Some (ups b)).
Proof. exact c15_round_robin_balancer. Qed.

Theorem C15_round_robin_each_once : forall ops k u,
  let b := fst (lb_run lb_empty ops) in
  NoDup (ups b) -> In u (ups b) ->
  count_occ optN_eq_dec (snd (lb_nexts (List.length (ups b)) (fst (lb_nexts k b)))) (Some u) = 1.
Proof. exact c15_round_robin_each_once. Qed.

(* manager level: from any reachable state, while no upstream of e connects or disconnects (anything else may happen:
   other endpoints, remote nodes, selections with either allow flag), any n selections for e return exactly the n
   registered upstreams, up to order. The state is arbitrary, so this covers every window of n consecutive selections. *)
Theorem C15_round_robin : forall id g p a ops e b sels,
  let s := mrun (minit id g p a) ops in
  lookup e (m_lbs s) = Some b -> untouched e sels = true -> sel_count e sels = List.length (ups b) ->
  Permutation (fst (mrun_sel e s sels)) (map SLocal (ups b)).
Proof. exact c15_round_robin. Qed.
Example C15_round_robin_hyp :
  let ops := [MAdd 1 "e"; MAdd 2 "e"; MAdd 3 "e"; MSelect "e" false; MRemove 2 "e"; MAdd 4 "e1"] in
  let sels := [MSelect "e" true; MAdd 5 "e1"; MSelect "e1" false; MSelect "e" false; MRemove 4 "e1"] in
  exists b, lookup "e" (m_lbs (mrun (minit "n" "g" "p" "a") ops)) = Some b /\ ups b = [1; 3]%N /\ nxt b = 1 /\
            untouched "e" sels = true /\ sel_count "e" sels = List.length (ups b) /\
            fst (mrun_sel "e" (mrun (minit "n" "g" "p" "a") ops) sels) = [SLocal 3; SLocal 1].
Proof. cbn zeta. eexists. vm_compute. repeat split. Qed.

(* "additions or removals at any point never ... starve a remaining upstream". What is proved, precisely: from any
   reachable state in which u is connected for e, let ANY further ops run in which u itself is not disconnected from e
   (connects of anything, disconnects of other upstreams, selections, other endpoints, remote nodes). If the number of
   selections for e reaches (1 + disconnects for e) * (current set size + connects for e), u has been selected.
   So with a stable set u is selected within [set size] selections, with additions only within [set size + additions],
   and each removal of another upstream costs at most one more cycle. *)
Theorem C15_no_starvation : forall id g p a ops e u more,
  let s := mrun (minit id g p a) ops in
  In u (registered e ops) ->
  (forall o, In o more -> o <> MRemove u e) ->
  (1 + rem_count e more) * (List.length (registered e ops) + add_count e more) <= sel_count e more ->
  In (SLocal u) (fst (mrun_sel e s more)).
Proof. exact c15_no_starvation. Qed.
Example C15_no_starvation_hyp :
  let ops := [MAdd 1 "e"; MAdd 2 "e"; MAdd 3 "e"; MAdd 4 "e"; MSelect "e" false; MSelect "e" false; MSelect "e" false] in
  let more := [MRemove 1 "e"; MSelect "e" false; MAdd 5 "e"; MSelect "e" true; MSelect "e" false; MSelect "e" false;
               MSelect "e" false; MSelect "e" false; MSelect "e" false; MSelect "e" false; MSelect "e" false; MSelect "e" false] in
  In 4%N (registered "e" ops) /\ (forall o, In o more -> o <> MRemove 4%N "e") /\
  (1 + rem_count "e" more) * (List.length (registered "e" ops) + add_count "e" more) <= sel_count "e" more.
Proof.
  cbn zeta. split; [vm_compute; auto|]. split; [|vm_compute; auto 20].
  intros o H. repeat (destruct H as [H|H]; [subst; discriminate|]). destruct H.
Qed.

(* sharper bounds at balancer level. Stable set: within [length ups] selections. *)
Theorem C15_no_starvation_stable : forall ops u k,
  let b := fst (lb_run lb_empty ops) in
  In u (ups b) -> List.length (ups b) <= k -> In (Some u) (snd (lb_nexts k b)).
Proof. exact c15_no_starvation_stable. Qed.

(* additions (of anything) and selections only, in any interleaving: within [length ups + additions] selections *)
Theorem C15_no_starvation_adds : forall ops more u,
  let b := fst (lb_run lb_empty ops) in
  In u (ups b) -> count_remove more = 0 ->
  List.length (ups b) + count_add more <= count_next more ->
  In (Some u) (snd (lb_run b more)).
Proof. exact c15_no_starvation_adds. Qed.

(* the additions term is necessary: one addition per selection postpones u for as long as that lasts (new upstreams
   are appended right where the cursor is about to wrap), i.e. a remaining upstream CAN be kept waiting by an
   unbounded stream of additions - for k rounds there are k selections, k additions, and u is not selected *)
Theorem C15_starvation_bound_tight : forall u a x k,
  a <> u -> x <> u ->
  let b := fst (lb_run lb_empty [BAdd u; BAdd a; BNext]) in
  let ops := add_next_rounds x k in
  In u (ups b) /\ count_next ops = k /\ count_add ops = k /\ count_remove ops = 0 /\
  ~ In (Some u) (snd (lb_run b ops)).
Proof. exact c15_starvation_bound_tight. Qed.

(* the removals term is necessary: Remove keeps nextIndex, so removing an upstream in front of the cursor makes the
   cursor skip the upstream that was due next. Here 1, 2, 3 have been served and upstream 4 is due; upstream 1
   disconnects, and 4 is served only after 2 and 3 have been served a second time (it waits 5 selections in a set
   of 4, then 3). It is served within one cycle of the smaller set, as C15_no_starvation promises. *)
Example C15_removal_can_skip :
  let b := fst (lb_run lb_empty [BAdd 1; BAdd 2; BAdd 3; BAdd 4; BNext; BNext; BNext]%N) in
  fst (lb_next b) = Some 4%N /\
  snd (lb_run b [BRemove 1; BNext; BNext; BNext]%N) = [Some 2; Some 3; Some 4]%N.
Proof. vm_compute. split; reflexivity. Qed.

(* Sharper, and what separates the real Remove from a Remove that restarts the rotation (UpstreamP/ChurnP.v): only a
   disconnect of an upstream stored IN FRONT of u can cost u more than one turn. Connects are appended behind, so a
   connection that keeps flapping, or any churn among upstreams that connected after u, never delays u beyond one
   round of the largest set the endpoint held meanwhile:
   if the endpoint never holds more than M upstreams during [more] and f disconnects in [more] hit an upstream
   stored in front of u at that moment, then u is selected within (1 + f) * (M - 1) + 1 selections for e. *)
Theorem C15_no_starvation_churn : forall id g p a ops e u more M,
  let s := mrun (minit id g p a) ops in
  In u (registered e ops) ->
  (forall o, In o more -> o <> MRemove u e) ->
  maxlen (view e s) (mprojs e more) <= M ->
  (1 + front_removals u (view e s) (mprojs e more)) * (M - 1) < sel_count e more ->
  In (SLocal u) (fst (mrun_sel e s more)).
Proof. exact c15_no_starvation_churn. Qed.

Theorem C15_no_starvation_churn_balancer : forall ops more u M,
  let b := fst (lb_run lb_empty ops) in
  In u (ups b) -> (forall v, In (BRemove v) more -> v <> u) ->
  maxlen b more <= M ->
  (1 + front_removals u b more) * (M - 1) < count_next more ->
  In (Some u) (snd (lb_run b more)).
Proof. exact c15_no_starvation_churn_balancer. Qed.

(* the hypotheses are satisfiable, and the bound is what the run shows: upstreams 1 2 3, the cursor on 2; upstream 9
   flaps (connect, one selection, disconnect) - M = 4, no removal in front of 3 - and 3 is served by the 2nd selection *)
Example C15_no_starvation_churn_hyp :
  let ops := [BAdd 1; BAdd 2; BAdd 3; BNext]%N in
  let more := [BAdd 9; BNext; BRemove 9; BAdd 9; BNext; BRemove 9; BAdd 9; BNext; BRemove 9; BNext]%N in
  let b := fst (lb_run lb_empty ops) in
  In 3%N (ups b) /\ maxlen b more <= 4 /\ front_removals 3%N b more = 0 /\ (1 + 0) * (4 - 1) < count_next more /\
  snd (lb_run b more) = [Some 2; Some 3; Some 1; Some 2]%N.
Proof. vm_compute. repeat split; auto. Qed.

(* a flapping connection x never keeps either of two stable upstreams waiting: k >= 3 rounds of
   (x connects, one selection, x disconnects) serve both *)
Theorem C15_flapping_serves_both : forall a u x k,
  a <> x -> u <> x -> a <> u -> 3 <= k ->
  let r := snd (lb_run {| ups := [a; u]; nxt := 0 |} (flap x k)) in In (Some a) r /\ In (Some u) r.
Proof. exact flap_serves_both. Qed.

(* ... whereas a Remove that resets nextIndex to 0 ("the indexes have shifted, restart at the first upstream":
   seeded change C15-2) serves only the first one, for ever. That variant satisfies the coarse bound of
   C15_no_starvation; it is C15_no_starvation_churn that excludes it. *)
Theorem C15_reset_variant_refuted : forall a u x k,
  a <> x -> u <> x ->
  lb_run_reset {| ups := [a; u]; nxt := 0 |} (flap x k) = ({| ups := [a; u]; nxt := 0 |}, repeat (Some a) k).
Proof. exact reset_variant_starves. Qed.

Print Assumptions C15_no_starvation_churn.
Print Assumptions C15_no_starvation_churn_balancer.
Print Assumptions C15_flapping_serves_both.
Print Assumptions C15_reset_variant_refuted.
Print Assumptions C15_inv_balancer.
Print Assumptions C15_next_never_nil.
Print Assumptions C15_inv.
Print Assumptions C15_select_never_nil.
Print Assumptions C15_valid.
Print Assumptions C15_removed_not_selected.
Print Assumptions C15_round_robin_balancer.
Print Assumptions C15_round_robin_each_once.
Print Assumptions C15_round_robin.
Print Assumptions C15_no_starvation.
Print Assumptions C15_no_starvation_stable.
Print Assumptions C15_no_starvation_adds.
Print Assumptions C15_starvation_bound_tight.
Print Assumptions C15_removal_can_skip.
