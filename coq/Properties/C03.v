From Piko Require Import Gossip.World.
Example C03_placeholder : True. Proof. exact I. Qed.
Print Assumptions C03_placeholder.
