(* C03 - Gossip converges: every live node ends up with every live node's exact state.
   Only statements here; proofs in GossipP/ConvergeP.v, ApplyValid.v, CodecP.v.
   Model: Gossip/Apply.v, Codec.v, World.v. *)
From Coq Require Import List String NArith ZArith Bool Lia.
From Piko Require Import Base.Maps Base.Strs Gossip.Types Gossip.Local Gossip.Apply Gossip.Codec.
From Piko Require Import Gossip.World GossipP.SortP GossipP.LocalP GossipP.Valid GossipP.ApplyValid GossipP.CodecP GossipP.ConvergeP
     GossipP.MemberP GossipP.WorldInv GossipP.WorldConv GossipP.WorldRounds GossipP.RoundsExample.
From Coq Require Import Permutation.
From Piko Require Import Gossip.Round GossipP.RoundP.
From Piko Require Import Gossip.DeltaVariants GossipP.DeltaVariantsP.
Import ListNotations.
Open Scope string_scope. Open Scope list_scope. Open Scope N_scope.

(* The measure: deficit L v = number of distinct versions the owner ever wrote (its log L) above the version v an
   observer has reached. Counting LOG versions (not current entries) makes it strictly decrease even when the entry
   received is stale, or relayed by a third party, or a compaction marker. *)

(* "after earlier message loss ... packets can carry only part of the outstanding difference": applying ANY prefix of
   a delta cut from a valid source never increases the deficit (loss, duplication, reordering, truncation included) *)
Theorem C03_no_regress :
  forall O S L d now nid B es, OwnInv O L -> Valid S O L -> Valid B O L -> d <= n_ver B ->
  is_prefix_of es (sort_by_ver (filter (fun e => d <? e_ver e) (values (n_ents S)))) ->
  (deficit L (n_ver (fst (apply_entries now nid B es))) <= deficit L (n_ver B))%nat.
Proof.
  intros O S L d now nid B es HO HS HB Hd Hp. apply deficit_mono.
  exact (proj2 (apply_prefix_valid O S L d now nid HO HS B es HB Hd Hp)).
Qed.

(* one exchange makes progress: a non-empty prefix of the delta cut for exactly the observer's version strictly
   decreases the deficit *)
Theorem C03_progress :
  forall O S B L now nid e es, OwnInv O L -> Valid S O L -> Valid B O L ->
  is_prefix_of (e :: es) (sort_by_ver (filter (fun x => n_ver B <? e_ver x) (values (n_ents S)))) ->
  (deficit L (n_ver (fst (apply_entries now nid B (e :: es)))) < deficit L (n_ver B))%nat.
Proof. intros O S B L now nid e es HO HS HB Hp. exact (exchange_progress O S B L now nid HO HS e es Hp). Qed.

(* ... and the prefix IS non-empty whenever the sender holds anything newer and that entry fits the packet together
   with the headers (hypothesis "fits"; without it: C03_refuted_oversize / finding G1) *)
Theorem C03_nonempty_when_fits :
  forall id addr de e es dl max, de_ents de = e :: es ->
  blen (delta_prefix id addr) + blen (enc_delta_header (de_id de) (de_addr de) (N.of_nat (List.length (de_ents de))))
    + blen (enc_entry e) <= max ->
  exists p ps t, cut_delta id addr (de :: dl) max = Some (p :: ps) /\ dp_id p = de_id de /\ dp_ents p = e :: t.
Proof. exact encode_delta_at_least_one. Qed.

(* "every live node's view ... becomes identical to that node's own state - same keys, values, deletion markers and
   version": zero deficit = caught up = identical entries *)
Theorem C03_stuck_is_converged :
  forall O V L, OwnInv O L -> Valid V O L -> deficit L (n_ver V) = 0%nat ->
  n_ver V = n_ver O /\ forall k, lookup k (n_ents V) = lookup k (n_ents O).
Proof. exact stuck_is_converged. Qed.

(* "within a bounded number of exchanges": a quantity that strictly decreases at every step can do so at most
   (initial value) times - with C03_progress the number of progressing exchanges of a pair is bounded by its deficit,
   hence the number of all-pairs rounds by the total deficit *)
Theorem C03_bounded :
  forall (f : nat -> nat) (k : nat), (forall i, (i < k)%nat -> (f (S i) < f i)%nat) -> (k <= f 0%nat)%nat.
Proof.
  intros f k H. assert (Hk : forall i, (i <= k)%nat -> (f i + i <= f 0%nat)%nat).
  { induction i as [|i IH]; intros Hi; [lia|]. specialize (H i ltac:(lia)). specialize (IH ltac:(lia)). lia. }
  specialize (Hk k (le_n k)). lia.
Qed.

(* the hypothesis "fits" is necessary (finding G1): an entry that does not fit is never sent, nor anything after it *)
Example C03_refuted_oversize :
  let big := mk_entry "big" (String.concat "" (repeat "x" 200)) 2 false false in
  let dl := [{| de_id := "b"; de_addr := "10.0.0.2:7000"; de_ents := [big; mk_entry "k3" "3" 3 false false] |}] in
  option_map (map (fun p => List.length (dp_ents p))) (cut_delta "b" "10.0.0.2:7000" dl 150) = Some [0%nat].
Proof. vm_compute. reflexivity. Qed.

(* Whole cluster. Psi obs ids w = sum over observers a in obs and owners id in ids of the deficit of a's view of id.
   "After local updates stop": EVERY step of the world other than a local write - sends with any order/size, delivery,
   duplication, loss, liveness, join/leave streams - leaves Psi non-increasing (and every single reported version
   non-decreasing): nothing that was learned is ever lost, whatever the network does. *)
Theorem C03_world_no_regress :
  forall obs ids w o, allowed o -> (forall n lo, o <> WLocal n lo) ->
  (Psi obs ids (so_world (wstep w o)) <= Psi obs ids w)%nat.
Proof. exact Psi_no_regress. Qed.

Theorem C03_world_versions_monotone :
  forall w o a id, allowed o -> node_ver w a id <= node_ver (so_world (wstep w o)) a id.
Proof. exact wstep_ver_mono. Qed.

(* One exchange makes progress - composition of the real handler functions: a's digest carries its exact version of
   y; b's reply delta (Delta + encodeDelta cut at max) starts with y's entries above that version, taken from b's
   valid state S of y; the first missing entry fits. After a applies what the packet carries (ApplyDelta), a's
   deficit for y is strictly smaller. With C03_world_no_regress (nothing else grows) every such exchange strictly
   decreases Psi, so by C03_bounded at most Psi of them can happen before every live view has zero deficit, which by
   C03_stuck_is_converged (and C02_world_invariant for the validity premises) means equal to the owner's state. *)
Theorem C03_exchange_makes_progress :
  forall O L nows ca y B S e es rest id addr max parts,
  OwnInv O L -> c_local ca <> y ->
  lookup y (c_nodes ca) = Some B -> Valid B O L -> Valid S O L -> n_id S = y ->
  de_ents (delta_entry_of S (n_ver B)) = e :: es ->
  blen (delta_prefix id addr) + blen (enc_delta_header (n_id S) (n_addr S) (N.of_nat (List.length (e :: es))))
    + blen (enc_entry e) <= max ->
  cut_delta id addr (delta_entry_of S (n_ver B) :: rest) max = Some parts ->
  (deficit L (ver_of (fst (apply_delta nows ca (map part_to_delta parts))) y) < deficit L (ver_of ca y))%nat.
Proof. exact exchange_makes_progress. Qed.

(* The composition, for whole clusters (GossipP/WorldRounds.v). A PULL a <- b is one complete exchange on an otherwise
   quiet network: a's digest request to b, b's delta + digest reply, a's delta back (WSend and four deliveries, the
   real handlers). A pull is [good] in w when a and b are distinct cluster nodes, a's digest is produced with a legal
   map-order oracle, fits the packet size and lists b, and the first entry of whatever delta reply may be due fits
   ([roomy]: finding G1 excluded). [quiet w] = w is reachable from the initial cluster by any allowed history
   (local writes, sends, delivery/duplication/loss in any order, liveness, join/leave streams), versions below 2^64,
   nothing in flight. PsiAll = the total deficit over all observers and all owners.

   One good pull a <- b run while a is behind b's own state strictly decreases PsiAll - whatever node the (possibly
   cut) reply happens to start with, and although that node is only known through third parties. *)
Theorem C03_pull_makes_progress :
  forall specs, NoDup (map fst specs) -> NoDup (map snd specs) ->
  forall w a b ida addra idb addrb ca cb o1 o2 max nowsA nowsB p,
  reach (init_world specs) w -> wsmall w -> w_net w = [] -> a <> b ->
  nth_error specs a = Some (ida, addra) -> nth_error specs b = Some (idb, addrb) ->
  nth_error (w_nodes w) a = Some ca -> nth_error (w_nodes w) b = Some cb ->
  make_digest_packet ca addrb true o1 max = Some p -> In idb o1 ->
  (0 < pair_deficit w a idb)%nat -> roomy w max ->
  (PsiAll specs (wrun w (pull a b o1 o2 max nowsA nowsB)) < PsiAll specs w)%nat.
Proof. exact pull_progress. Qed.

(* "within a bounded number of exchanges": any sequence of at least PsiAll w ROUNDS, each containing a good pull for
   every ordered pair of nodes (in any order, with any legal oracles and any packet sizes that are roomy), ends with
   total deficit zero and a quiet network again ... *)
Theorem C03_rounds_converge :
  forall specs, NoDup (map fst specs) -> NoDup (map snd specs) -> specs <> [] ->
  forall rs w, quiet specs w -> good_rounds specs w rs -> Forall (covers specs) rs -> (PsiAll specs w <= List.length rs)%nat ->
  quiet specs (run_rounds w rs) /\ PsiAll specs (run_rounds w rs) = 0%nat.
Proof. intros specs H1 H2 H3 rs w. exact (rounds_converge specs H1 H2 rs w H3). Qed.

(* ... and total deficit zero means: every node's view of every other node it knows IS that node's own state - same
   version, same keys, values and deletion markers *)
Theorem C03_converged_views :
  forall specs, NoDup (map fst specs) -> NoDup (map snd specs) ->
  forall w a b ida addra idb addrb ca cb V O,
  reach (init_world specs) w -> PsiAll specs w = 0%nat -> a <> b ->
  nth_error specs a = Some (ida, addra) -> nth_error specs b = Some (idb, addrb) ->
  nth_error (w_nodes w) a = Some ca -> nth_error (w_nodes w) b = Some cb ->
  lookup idb (c_nodes ca) = Some V -> lookup idb (c_nodes cb) = Some O ->
  n_ver V = n_ver O /\ forall k, lookup k (n_ents V) = lookup k (n_ents O).
Proof. exact converged_views. Qed.

(* the hypotheses are satisfiable: two nodes, a one write behind b after a join; one round of two good pulls is a
   schedule C03_rounds_converge applies to, and the computed run ends with a's view of b = b's state (version 2) *)
Example C03_rounds_example :
  quiet ex_specs ex_w /\ PsiAll ex_specs ex_w = 1%nat /\ good_rounds ex_specs ex_w [ex_round] /\ covers ex_specs ex_round /\
  PsiAll ex_specs (run_rounds ex_w [ex_round]) = 0%nat /\
  option_map (fun c => option_map (fun s => n_ver s) (lookup "b" (c_nodes c))) (nth_error (w_nodes (run_rounds ex_w [ex_round])) 0) = Some (Some 2).
Proof.
  split; [exact ex_quiet|]. split; [exact ex_behind|]. split; [exact ex_good_rounds|]. split; [exact ex_covers|].
  split; [exact (proj2 ex_converges)|exact (proj2 ex_final_views)].
Qed.

(* PARTIAL (named): what is NOT proved is that the running node produces such a schedule - its random peer selection
   and timers (fairness), and exchanges that overlap in time (the rounds theorem runs each exchange on a quiet network;
   for arbitrary interleavings only C03_world_no_regress is proved: nothing learned is ever lost). The convergence
   campaigns on the real nodes exercise exactly these schedules on every run. *)

(* "if the live nodes keep exchanging gossip": who a running node exchanges with. A gossip round (gossip.go gossipRound)
   sends its digest to one peer drawn from the live peers and to one drawn from the unreachable peers (Gossip/Round.v; Go's
   map order and random numbers are oracles). For EVERY order in which Go lists the peers: every live peer is the target
   for a whole residue class of the random number, so a sequence of rounds whose random numbers hit every residue - in
   particular every sequence produced by a generator that does - contacts every live peer (and every unreachable one);
   and whatever the numbers are, what a round sends is a legal observation of the model (the harness compares the
   destinations of real rounds with it). [partial: that math/rand hits every residue is not proved] *)
Theorem C03_round_reaches_every_live_peer :
  forall lives unreach p, In p lives ->
  exists i, (i < List.length lives)%nat /\
  forall r1 r2, Nat.modulo r1 (List.length lives) = i -> In p (round_targets lives unreach r1 r2).
Proof. exact round_reaches_live. Qed.

Theorem C03_rounds_cover :
  forall lives unreach (rs : list (nat * nat)),
  (forall i, (i < List.length lives)%nat -> exists r, In r rs /\ Nat.modulo (fst r) (List.length lives) = i) ->
  (forall i, (i < List.length unreach)%nat -> exists r, In r rs /\ Nat.modulo (snd r) (List.length unreach) = i) ->
  forall p, In p lives \/ In p unreach -> exists r, In r rs /\ In p (round_targets lives unreach (fst r) (snd r)).
Proof. exact rounds_cover. Qed.

Theorem C03_round_targets_legal :
  forall c lives unreach r1 r2,
  Permutation lives (live_peers c) -> Permutation unreach (unreach_peers c) ->
  round_legal c (map n_addr (round_targets lives unreach r1 r2)) = true.
Proof. exact round_targets_legal. Qed.

Example C03_ex_round :
  map n_id (live_peers ex_round_state) = ["b"; "e"] /\ map n_id (unreach_peers ex_round_state) = ["c"; "f"] /\
  map n_id (round_targets (live_peers ex_round_state) (unreach_peers ex_round_state) 7 4) = ["e"; "c"] /\
  round_legal ex_round_state ["E:1"; "C:1"] = true /\ round_legal ex_round_state ["D:1"; "C:1"] = false /\
  round_legal ex_round_state ["B:1"] = false.
Proof. exact ex_round_rounds. Qed.

(* "even when a packet can carry only part of the outstanding difference": the part has to be a VERSION PREFIX. The variant
   that caps the number of entries while ranging over the map and sorts afterwards (seeded changes C03-12, C13-12) is
   refuted: for a map order that lists the newest entry first the capped delta skips a version, and the observer applying it
   reports the owner's version while it lacks the skipped key - nothing will ever ask for it again. *)
Theorem C03_capped_delta_variant_refuted :
  map e_key (de_ents (delta_entry_of dv_owner 0)) = ["a"; "b"; "c"] /\
  map e_key (de_ents (delta_entry_capped 2 dv_owner 0)) = ["a"; "c"] /\
  exists V, dv_apply (delta_entry_capped 2 dv_owner 0) = Some V /\ n_ver V = 3%N /\ lookup "b" (n_ents V) = None /\
            lookup "b" (n_ents dv_owner) <> None.
Proof. exact capped_variant_refuted. Qed.

(* ... and the check is tight: every destination list the harness accepts for a membership is what gossipRound sends for
   some pair of random numbers *)
Theorem C03_round_legal_complete :
  forall c dsts, round_legal c dsts = true ->
  exists r1 r2, map n_addr (round_targets (live_peers c) (unreach_peers c) r1 r2) = dsts.
Proof. exact round_legal_complete. Qed.

Print Assumptions C03_no_regress.
Print Assumptions C03_progress.
Print Assumptions C03_nonempty_when_fits.
Print Assumptions C03_stuck_is_converged.
Print Assumptions C03_bounded.
Print Assumptions C03_refuted_oversize.
Print Assumptions C03_world_no_regress.
Print Assumptions C03_world_versions_monotone.
Print Assumptions C03_exchange_makes_progress.
Print Assumptions C03_pull_makes_progress.
Print Assumptions C03_rounds_converge.
Print Assumptions C03_converged_views.
Print Assumptions C03_rounds_example.
Print Assumptions C03_round_reaches_every_live_peer.
Print Assumptions C03_rounds_cover.
Print Assumptions C03_round_targets_legal.
Print Assumptions C03_ex_round.
Print Assumptions C03_capped_delta_variant_refuted.
Print Assumptions C03_round_legal_complete.
