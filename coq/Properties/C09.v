From Coq Require Import List String ZArith NArith Bool.
From Piko Require Import Auth.Token Auth.Verify Auth.Routes Auth.Serve AuthP.VerifyP AuthP.RoutesP AuthP.ExamplesP generated.RouteTables.
Import ListNotations.
Open Scope string_scope. Open Scope list_scope.

(* "... no route runs unless the request carries a bearer token (x-piko-authorization taking precedence over
   Authorization) that is signed by a configured key with an algorithm of that key's family, is not expired or
   not-yet-valid, and matches the configured audience and issuer."
   preferred_header = x-piko-authorization when present, else Authorization; dec = the JWT parse of the token string;
   now in nanoseconds, claims in seconds (ns). The key is a configured one whenever the selected verifier has keys
   at all (enabled = auth.Config.Enabled, the condition under which server.go builds a verifier). *)
Theorem C09_accept_sound :
  forall (m : mtv) (dec : string -> option token) (rq : request) (now : Z) (t : atoken),
  auth_mw m dec rq now = Accept t ->
  exists tokstr tok c,
    preferred_header rq = ("Bearer " ++ tokstr)%string /\ dec tokstr = Some tok /\
    selected_verifier m (rq_tenant rq) = Some c /\
    (exists k, t_signed_by tok = Some k /\ alg_family (t_alg tok) = Some (k_fam k) /\ t_intact tok = true
               /\ (enabled c = true -> configured c k)) /\
    (forall e, t_exp tok = Some e -> (now < ns e)%Z) /\
    (forall n, t_nbf tok = Some n -> (ns n <= now)%Z) /\
    (c_aud c <> "" -> In (c_aud c) (t_aud tok)) /\
    (c_iss c <> "" -> t_iss tok = Some (c_iss c)) /\
    at_endpoints t = t_endpoints tok /\ at_tenant t = rq_tenant rq.
Proof. exact accept_sound. Qed.

(* satisfiable (witnesses in AuthP/ExamplesP.v): an HS256 token of the configured key, inside its window, with the
   configured audience among others, in x-piko-authorization while Authorization carries something else, is accepted *)
Example C09_accept_sound_satisfiable :
  auth_mw ex_mtv ex_dec ex_req (ns 1000) = Accept {| at_endpoints := ["e"]; at_tenant := ""; at_expiry := Some 4600%Z |}.
Proof. exact ex_accept. Qed.

(* "alg none, an HMAC token verified against an RSA/ECDSA public key, wrong key, tampered segment => Reject":
   bad_signature c t := alg = "none" \/ (an HS* algorithm over a signature made with a non-HMAC key)
                        \/ (signed by no configured key) \/ (a segment was altered).
   Whatever the claims say, the verifier answers ErrInvalidToken and the middleware 401. *)
Theorem C09_none_and_confusion :
  forall (c : vcfg) (t : token) (now : Z),
  enabled c = true ->
  (t_alg t = "none"
   \/ (alg_family (t_alg t) = Some FHmac /\ exists k, t_signed_by t = Some k /\ k_fam k <> FHmac)
   \/ (forall k, configured c k -> t_signed_by t <> Some k)
   \/ t_intact t = false) ->
  jwt_verify c (Some t) now = VInvalid.
Proof. exact bad_signature_invalid. Qed.

Theorem C09_none_and_confusion_401 :
  forall (m : mtv) (dec : string -> option token) (rq : request) (now : Z) tokstr tok c,
  preferred_header rq = ("Bearer " ++ tokstr)%string -> dec tokstr = Some tok ->
  selected_verifier m (rq_tenant rq) = Some c -> enabled c = true -> bad_signature c tok ->
  auth_mw m dec rq now = Reject 401 "invalid token".
Proof. exact auth_bad_signature_rejected. Qed.

(* satisfiable: the classic confusion attack - HS256 keyed with the configured RSA public key *)
Example C09_none_and_confusion_satisfiable :
  enabled ex_cfg_rsa = true /\ bad_signature ex_cfg_rsa ex_confused /\ configured ex_cfg_rsa ex_rsa.
Proof. exact ex_confusion. Qed.

(* the hypothesis `enabled` is needed: a verifier built from a configuration without any key (which server.go
   never builds for a reachable path) accepts HS* tokens signed with the EMPTY secret *)
Theorem C09_keyless_verifier_accepts_empty_secret_refuted :
  exists c t, enabled c = false /\ (forall k, configured c k -> t_signed_by t <> Some k) /\
              forall now, jwt_verify c (Some t) now = VOk None [].
Proof. exact keyless_verifier_accepts_empty_secret. Qed.

(* "On a proxy, upstream or admin port configured with authentication, no route - proxying, upstream registration,
   status, metrics, health, profiling or admin forwarding - runs unless ...": for the registration sequences of the
   three servers as RE-EXTRACTED from the current source (generated/RouteTables.v), under every valuation of the
   other registration conditions, every route's chain and the NoRoute chain contain the auth middleware, preceded
   only by inert middleware (recovery, access log, metrics) - in particular ahead of the forward interceptor and of
   the handler. Proved by computation on the regenerated tables + the soundness of the boolean check. *)
Theorem C09_every_route_guarded :
  forall ops, In ops [proxy_ops; upstream_ops; admin_ops] ->
  forall env : string -> bool, env "verifier" = true ->
  let e := build env ops in
  (forall r, In r (e_routes e) ->
     exists pre post, rt_mws r = pre ++ "auth" :: post /\ Forall (fun m => In m inert_mws) pre) /\
  (exists pre post, fst (noroute_chain e) = pre ++ "auth" :: post /\ Forall (fun m => In m inert_mws) pre).
Proof. exact every_route_guarded. Qed.

(* not vacuous: the tables register routes (22 on the admin port when all conditions hold) *)
Example C09_every_route_guarded_nonvacuous :
  let n ops := List.length (e_routes (build (fun _ => true) ops)) in
  (0 < n proxy_ops /\ 0 < n upstream_ops /\ 10 < n admin_ops)%nat.
Proof. exact tables_nonvacuous. Qed.

(* "Every other request is answered 401 and reaches no upstream and no handler": when the middleware refuses
   (Reject 401 err), the port's answer is exactly that 401 - the outcome is neither a Select, an AddConn, a forward
   nor a handler - except that gin may already have answered its trailing-slash redirect, before any middleware
   (known finding A1, witness below). *)
Theorem C09_reject_is_401_no_handler :
  forall ops (pc : portcfg) (dec : string -> option token) (rq : request) (now : Z) m err,
  In ops [proxy_ops; upstream_ops; admin_ops] -> pc_verifier pc = Some m ->
  auth_mw m dec rq now = Reject 401 err ->
  serve ops pc dec rq now = ORedirect \/ serve ops pc dec rq now = O401 err.
Proof. exact reject_is_401_no_handler. Qed.

(* ... and a refusal IS a 401 whenever the selected verifier has keys *)
Theorem C09_reject_status_401 :
  forall m dec rq now s e,
  (forall c, selected_verifier m (rq_tenant rq) = Some c -> enabled c = true) ->
  auth_mw m dec rq now = Reject s e -> s = 401%N.
Proof. exact auth_reject_status. Qed.

Example C09_reject_is_401_satisfiable :
  auth_mw ex_mtv ex_dec ex_req_lower (ns 1000) = Reject 401 "unsupported auth type".
Proof. exact ex_reject. Qed.

(* A1 (known finding): "answered 401" is FALSE of the faithful model for a path that differs from a registered
   route by a trailing slash - the table is fully guarded, yet an unauthenticated request gets the redirect *)
Theorem C09_answered_401_refuted_by_trailing_slash_redirect :
  exists ops pc rq,
    all_guardedb ops = true /\ (exists m, pc_verifier pc = Some m) /\ preferred_header rq = "" /\
    forall dec now, serve ops pc dec rq now = ORedirect.
Proof. exact trailing_slash_redirect_precedes_auth. Qed.

Print Assumptions C09_accept_sound.
Print Assumptions C09_none_and_confusion.
Print Assumptions C09_none_and_confusion_401.
Print Assumptions C09_keyless_verifier_accepts_empty_secret_refuted.
Print Assumptions C09_every_route_guarded.
Print Assumptions C09_reject_is_401_no_handler.
Print Assumptions C09_reject_status_401.
Print Assumptions C09_answered_401_refuted_by_trailing_slash_redirect.
