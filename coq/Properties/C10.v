From Coq Require Import List String ZArith NArith Bool.
From Piko Require Import Auth.Token Auth.Verify Auth.Routes Auth.Serve AuthP.VerifyP AuthP.RoutesP AuthP.ExamplesP generated.RouteTables.
From Piko Require Import Proxy.UrlPath ProxyP.UrlPathP.
Import ListNotations.
Open Scope string_scope. Open Scope list_scope.

(* "A token that lists permitted endpoints can listen on or connect to exactly those endpoints and no other":
   with a non-empty list, permitted on E iff E is literally an element - no prefix, case or near-miss matching. *)
Theorem C10_exact_membership :
  forall (t : atoken) (e : string),
  at_endpoints t <> [] -> (endpoint_permitted t e = true <-> In e (at_endpoints t)).
Proof. exact permitted_exact. Qed.

(* "a token listing no endpoints may use any" *)
Theorem C10_no_list_any_endpoint :
  forall (t : atoken) (e : string), at_endpoints t = [] -> endpoint_permitted t e = true.
Proof. exact permitted_any. Qed.

Example C10_exact_membership_near_misses :
  let t := {| at_endpoints := ["e"; "f"]; at_tenant := ""; at_expiry := None |} in
  endpoint_permitted t "e" = true /\ endpoint_permitted t "f" = true /\
  endpoint_permitted t "e1" = false /\ endpoint_permitted t "E" = false /\ endpoint_permitted t "e.x" = false /\
  endpoint_permitted t "" = false /\ endpoint_permitted t "ee" = false.
Proof. exact ex_near_misses. Qed.

(* "the endpoint that is checked is the very endpoint the request is then routed to, whether it was named by Host
   label, x-piko-endpoint header or URL path": each of the three route functions is check-then-route over ONE
   derived endpoint id. For any routing call they make (Select / AddConn, `route`): its argument is the named
   endpoint, the request was handed on, and when a token is present that same endpoint was checked and is permitted;
   no other endpoint is ever checked; a token that does not permit it gets 401 and nothing is routed. *)
Theorem C10_checked_is_routed :
  forall (route : string -> event), (forall x, routing_event (route x) = Some x) ->
  forall (tok : option atoken) (e : string),
  (forall ev x, In ev (fst (check_then_route tok e route)) -> routing_event ev = Some x ->
     x = e /\ snd (check_then_route tok e route) = RARouted /\
     (forall t, tok = Some t -> endpoint_permitted t e = true /\ In (EvPermitted e) (fst (check_then_route tok e route)))) /\
  (forall ev x, In ev (fst (check_then_route tok e route)) -> check_event ev = Some x -> x = e) /\
  (forall t, tok = Some t -> endpoint_permitted t e = false ->
     snd (check_then_route (Some t) e route) = RA401 "endpoint not permitted" /\
     forall ev, In ev (fst (check_then_route (Some t) e route)) -> routing_event ev = None).
Proof.
  exact (fun route Hr tok e =>
    conj (fun ev x => ctr_routed route Hr tok e ev x)
      (conj (fun ev x => ctr_checked route Hr tok e ev x)
            (fun t _ Hp => ctr_denied route t e Hp))).
Qed.

(* the three route functions ARE that scheme over, respectively, EndpointIDFromRequest (x-piko-endpoint before the
   Host label) and the path parameter *)
Theorem C10_route_functions_are_check_then_route :
  (forall tok rq, endpoint_id_from_request rq <> "" ->
      proxy_http_route tok rq = check_then_route tok (endpoint_id_from_request rq) EvSelect) /\
  (forall tok p, proxy_tcp_route tok p = check_then_route tok p EvSelect) /\
  (forall tok p, upstream_route tok p = check_then_route tok p EvAddConn) /\
  (forall rq, rq_xendpoint rq <> "" -> endpoint_id_from_request rq = rq_xendpoint rq).
Proof. exact route_functions_scheme. Qed.

(* ... and on the real (regenerated) tables: whatever endpoint a protected port hands to Select or AddConn was
   permitted by the token the middleware accepted for this very request *)
Theorem C10_routed_is_permitted :
  forall ops (pc : portcfg) (dec : string -> option token) (rq : request) (now : Z) m e,
  In ops [proxy_ops; upstream_ops; admin_ops] -> pc_verifier pc = Some m ->
  (serve ops pc dec rq now = OSelect e \/ serve ops pc dec rq now = OAddConn e) ->
  exists t, auth_mw m dec rq now = Accept t /\ endpoint_permitted t e = true.
Proof. exact routed_is_permitted. Qed.

(* satisfiable, with conflicting namings: Host f + header e routes e (token lists e); Host e routes e; the TCP path
   names f while Host and header say e - f is what is checked, and refused *)
Example C10_checked_is_routed_conflicting_namings :
  serve proxy_ops ex_pc ex_dec ex_req_conflict (ns 1000) = OSelect "e" /\
  serve proxy_ops ex_pc ex_dec ex_req (ns 1000) = OSelect "e" /\
  serve proxy_ops ex_pc ex_dec {| rq_method := "GET"; rq_path := "/_piko/v1/tcp/f"; rq_host := "e.example.com"; rq_xendpoint := "e";
                                  rq_xauth := "Bearer T"; rq_auth := ""; rq_tenant := ""; rq_forward := None |} (ns 1000)
    = O401 "endpoint not permitted".
Proof. exact ex_conflict_routes_header_name. Qed.

(* "When tenants are configured, a token is accepted only under the tenant whose key signed it, and requests naming
   no tenant or an unknown tenant are refused": with a non-empty tenant table an accepted request names a configured
   tenant and the token verified under THAT tenant's verifier (whose accepted tokens are signed by its keys: C09) *)
Theorem C10_tenants :
  forall (m : mtv) (dec : string -> option token) (rq : request) (now : Z),
  mt_tenants m <> [] ->
  (forall t, auth_mw m dec rq now = Accept t ->
     rq_tenant rq <> "" /\ at_tenant t = rq_tenant rq /\
     exists c tokstr, lookup_tenant (rq_tenant rq) (mt_tenants m) = Some c /\
                      preferred_header rq = ("Bearer " ++ tokstr)%string /\
                      jwt_verify c (dec tokstr) now = VOk (at_expiry t) (at_endpoints t)) /\
  ((rq_tenant rq = "" \/ lookup_tenant (rq_tenant rq) (mt_tenants m) = None) ->
     exists e, auth_mw m dec rq now = Reject 401 e /\ (forall s, parse_token rq = PTok s -> e = "unknown tenant")).
Proof.
  exact (fun m dec rq now Hne =>
    conj (fun t => tenants_accept_only_under_named_tenant m dec rq now t Hne)
         (tenants_missing_or_unknown_refused m dec rq now Hne)).
Qed.

(* "the default verifier is unreachable" *)
Theorem C10_tenants_default_unreachable :
  forall d1 d2 ts dec rq now, ts <> [] ->
  auth_mw {| mt_default := d1; mt_tenants := ts |} dec rq now = auth_mw {| mt_default := d2; mt_tenants := ts |} dec rq now.
Proof. exact tenants_default_unreachable. Qed.

(* "without tenants any tenant header => 401" *)
Theorem C10_no_tenants_header_refused :
  forall m dec rq now, mt_tenants m = [] -> rq_tenant rq <> "" ->
  exists e, auth_mw m dec rq now = Reject 401 e /\ (forall s, parse_token rq = PTok s -> e = "unknown tenant").
Proof. exact no_tenants_header_refused. Qed.

Example C10_tenants_satisfiable :
  mt_tenants ex_mtv_tenants <> [] /\
  auth_mw ex_mtv_tenants ex_dec (ex_req_tenant "t1") 0%Z = Accept {| at_endpoints := ["e"; "f"]; at_tenant := "t1"; at_expiry := None |} /\
  auth_mw ex_mtv_tenants ex_dec (ex_req_tenant "") 0%Z = Reject 401 "unknown tenant" /\
  auth_mw ex_mtv_tenants ex_dec (ex_req_tenant "t2") 0%Z = Reject 401 "unknown tenant" /\
  auth_mw ex_mtv ex_dec (ex_req_tenant "t1") 0%Z = Reject 401 "unknown tenant".
Proof. exact ex_tenants. Qed.

(* "the endpoint that is checked is the very endpoint the request is then routed to, whether it was named by ... URL path":
   for a listen (`/piko/v1/upstream/:endpointID`) and a TCP dial (`/_piko/v1/tcp/:endpointID`) the route parameter the
   handlers check against the token is, for EVERY endpoint id the client names, that id or nothing (Proxy/UrlPath.v: the
   client's escaping, the server's decoding, gin's match). *)
Theorem C10_path_named_endpoint_is_the_clients :
  (forall id e, dialled_endpoint upstream_prefix id = Some e -> e = id) /\
  (forall id e, dialled_endpoint tcp_prefix id = Some e -> e = id) /\
  (forall prefix id, has_slash id = false -> id <> "" -> dialled_endpoint prefix id = Some id).
Proof. exact (conj (dialled_only_named upstream_prefix) (conj (dialled_only_named tcp_prefix) dialled_is_named)). Qed.

Print Assumptions C10_exact_membership.
Print Assumptions C10_no_list_any_endpoint.
Print Assumptions C10_checked_is_routed.
Print Assumptions C10_route_functions_are_check_then_route.
Print Assumptions C10_routed_is_permitted.
Print Assumptions C10_tenants.
Print Assumptions C10_tenants_default_unreachable.
Print Assumptions C10_no_tenants_header_refused.
Print Assumptions C10_path_named_endpoint_is_the_clients.
