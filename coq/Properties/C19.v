(* C19 — Rebalancing sheds only when imbalanced and never faster than the shed rate.

   Model: Rebalance/Rebalance.v (Server.Rebalance, shedSessions, State.AvgConns, the `Threshold != 0` scheduling
   guard) with float64 = Flocq binary64. [tick cfg open c] = number of upstream sessions closed by one tick of the
   rebalance loop of a node configured with [cfg], holding [open] sessions, seeing cluster state [c]
   (local node always active + remote nodes of any status with arbitrary advertised counts).
   Counts are bounded by hypothesis (|average| < 2^53, open < 2^53 where needed) so that int -> float64 is exact. *)
From Coq Require Import ZArith List Bool Reals.
From Flocq Require Import Core IEEE754.BinarySingleNaN.
From Piko Require Import Rebalance.Rebalance RebalanceP.FloatP RebalanceP.RebalanceP RebalanceP.Examples.
Open Scope Z_scope.

(* "Upstream connections are shed only when rebalancing is enabled, other nodes are known, the node holds at least
   the configured minimum number of connections and exceeds the average connections per active node by at least
   the threshold": if any guard holds, nothing is closed — for EVERY configuration (NaN, infinities included),
   every number of sessions and every cluster state. *)
Theorem C19_guards :
  forall (cfg : config) (open : Z) (c : cluster),
  enabled cfg = false \/ known_nodes c <= 1 \/ open = 0 \/ open < go_int_of_uint (c_min_conns cfg)
  \/ flt (balance open (avg_conns c)) (c_threshold cfg) = true ->
  tick cfg open c = 0.
Proof. exact guards_close_nothing. Qed.

(* the same, read the other way: whenever something is closed, every guard was passed *)
Theorem C19_sheds_only_past_guards :
  forall (cfg : config) (open : Z) (c : cluster),
  0 <= open -> tick cfg open c <> 0 ->
  enabled cfg = true /\ 1 < known_nodes c /\ 0 < open /\ go_int_of_uint (c_min_conns cfg) <= open
  /\ flt (balance open (avg_conns c)) (c_threshold cfg) = false.
Proof. exact sheds_only_past_guards. Qed.

(* "... exceeds the average connections per active node by at least the threshold (the average being taken to whole
   connections)": with a finite positive threshold and a positive average, closing anything implies the node is
   strictly above the integer average and its relative excess, rounded to binary64, reaches the threshold. *)
Theorem C19_shed_implies_imbalanced :
  forall (cfg : config) (open : Z) (c : cluster),
  threshold_valid cfg = true ->
  0 <= open < 2 ^ 53 -> 0 < avg_conns c < 2 ^ 53 ->
  tick cfg open c <> 0 ->
  avg_conns c < open /\
  (B2R (c_threshold cfg) <= round radix2 (SpecFloat.fexp 53 1024) ZnearestE (IZR (open - avg_conns c) / IZR (avg_conns c)))%R.
Proof. exact shed_implies_imbalanced_b. Qed.

(* "a node at or below the average sheds nothing" *)
Theorem C19_at_or_below_average :
  forall (cfg : config) (open : Z) (c : cluster),
  threshold_valid cfg = true ->
  0 <= open <= avg_conns c -> 0 < avg_conns c < 2 ^ 53 ->
  tick cfg open c = 0.
Proof. exact at_or_below_average. Qed.

(* "One rebalance step closes no more than the configured shed rate times that average, rounded up to a whole
   connection and at least one, never more connections than are open": for every threshold, every finite shed rate in
   [0,1], every cluster state whose integer average is below 2^53 in magnitude (zero and negative averages included).
   The ceiling is the real-number ceiling of the exact product. *)
Theorem C19_bounds :
  forall (cfg : config) (open : Z) (c : cluster),
  rate_valid cfg = true -> 0 <= open -> Z.abs (avg_conns c) < 2 ^ 53 ->
  tick cfg open c <> 0 ->
  1 <= tick cfg open c <= open /\
  tick cfg open c <= Z.max 1 (Zceil (IZR (avg_conns c) * B2R (c_shed_rate cfg))).
Proof. exact shed_bounds. Qed.

(* when no guard holds, at least one and at most all open connections are closed *)
Theorem C19_unguarded_sheds :
  forall (cfg : config) (open : Z) (c : cluster),
  0 <= open -> guarded cfg open c = false -> 1 <= tick cfg open c <= open.
Proof. exact unguarded_closes_at_least_one. Qed.

(* integer average 0 (fewer connections in the cluster than active nodes): balance is +Inf, which no threshold
   exceeds; the cap is 0; shedSessions(0) still closes one session. So with other nodes known and at least
   max(1, min_conns) sessions the code closes EXACTLY ONE connection per step, whatever threshold and rate are. *)
Theorem C19_zero_average :
  forall (cfg : config) (open : Z) (c : cluster),
  avg_conns c = 0 -> 0 < open < 2 ^ 53 ->
  1 < known_nodes c -> go_int_of_uint (c_min_conns cfg) <= open ->
  rebalance cfg open c = 1.
Proof. exact zero_average_closes_one. Qed.

(* "the average connections per active node": unreachable and left nodes do not influence the average *)
Theorem C19_average_over_active_nodes :
  forall (local : list Z) (remotes : list node),
  avg_conns {| cl_local := local; cl_remotes := remotes |}
  = avg_conns {| cl_local := local; cl_remotes := filter is_active remotes |}.
Proof. exact avg_ignores_inactive. Qed.

(* "(the average being taken to whole connections)": the floor of total / active nodes *)
Theorem C19_average_whole_connections :
  forall c : cluster, 0 <= total_conns c ->
  avg_conns c * active_nodes c <= total_conns c < (avg_conns c + 1) * active_nodes c.
Proof. exact avg_is_floor. Qed.

(* the hypotheses are satisfiable by a non-trivial state: threshold 0.2, rate 0.05, 60 local connections, average 32
   over two active nodes (an unreachable node with 400 and a left node with 7 are ignored): 2 = ceil(1.6) are closed *)
Example C19_hypotheses_satisfiable :
  rate_valid ex_cfg = true /\ threshold_valid ex_cfg = true /\ enabled ex_cfg = true /\
  avg_conns ex_cluster = 32 /\ known_nodes ex_cluster = 4 /\ guarded ex_cfg 60 ex_cluster = false /\
  tick ex_cfg 60 ex_cluster = 2.
Proof. exact ex_hyps. Qed.

(* corner cases by computation:
   - threshold 0.2, average 5, 6 connections: binary64 does not skip although 1/5 < the real value of the constant 0.2;
   - integer average 0: one connection closed;
   - why threshold_valid is a hypothesis of C19_at_or_below_average: a NaN threshold (accepted by Validate and by the
     `!= 0` guard) makes a node below the average shed *)
Example C19_corner_cases :
  (avg_conns ex_boundary_cluster = 5 /\
   flt (balance 6 5) (c_threshold ex_cfg) = false /\ tick ex_cfg 6 ex_boundary_cluster = 1) /\
  (avg_conns ex_zero_cluster = 0 /\ tick ex_cfg 1 ex_zero_cluster = 1) /\
  (threshold_valid ex_nan_cfg = false /\ enabled ex_nan_cfg = true /\ tick ex_nan_cfg 3 ex_cluster = 1).
Proof. exact (conj ex_boundary (conj ex_zero_average ex_nan_threshold)). Qed.

Print Assumptions C19_guards.
Print Assumptions C19_sheds_only_past_guards.
Print Assumptions C19_shed_implies_imbalanced.
Print Assumptions C19_at_or_below_average.
Print Assumptions C19_bounds.
Print Assumptions C19_unguarded_sheds.
Print Assumptions C19_zero_average.
Print Assumptions C19_average_over_active_nodes.
Print Assumptions C19_average_whole_connections.
Print Assumptions C19_hypotheses_satisfiable.
Print Assumptions C19_corner_cases.
