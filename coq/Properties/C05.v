(* C05 - Advertised upstream counts equal the upstreams actually registered.
   Model: Upstream/Manager.v = LoadBalancedManager.AddConn/RemoveConn + cluster.State.AddLocalEndpoint/
   RemoveLocalEndpoint/LocalEndpointListeners + syncer.onLocalEndpointUpdate + gossip UpsertLocal/DeleteLocal
   (Piko.Gossip.Local). [registered e ops] (UpstreamP/ManagerP.v) = the upstreams connected for endpoint e according
   to the connect/disconnect history alone (a disconnect of something that is not connected changes nothing);
   ops range over connects, disconnects of registered / already removed / never registered / twice registered
   upstreams, selections and remote-node updates. *)
From Coq Require Import List String NArith ZArith Bool Arith.
From Piko Require Import Base.Maps Base.Strs Gossip.Types Gossip.Local Upstream.Balancer Upstream.Manager.
From Piko Require Import UpstreamP.BalancerP UpstreamP.ManagerP UpstreamP.Statements.
From Piko Require Gossip.Apply Cluster.Syncer GossipP.LocalP GossipP.WatchP ClusterP.FoldP Compose.EndToEnd.
Import ListNotations.
Open Scope string_scope. Open Scope list_scope. Open Scope nat_scope.

(* "At every quiescent moment the number of upstreams a node advertises to the cluster for each endpoint equals the
   number of upstream connections registered on it for that endpoint ... for every order of connects and disconnects,
   for repeated or late removals of the same upstream": after every op sequence and for every endpoint e,
   length of the balancer of e = number of connected upstreams by the history's own bookkeeping = cluster count;
   the cluster's map holds e iff that number is not 0; the live gossip entry "endpoint:<e>" is exactly strconv.Itoa of
   it and is absent iff it is 0; and what a remote node decodes with strconv.Atoi is that number (below 2^63). *)
Theorem C05_counts_equal : forall id g p a ops e,
  let s := mrun (minit id g p a) ops in
  registered_count e s = List.length (registered e ops) /\
  local_listeners e s = N.of_nat (registered_count e s) /\
  lookup e (m_counts s) = (if Nat.eqb (registered_count e s) 0 then None else Some (N.of_nat (registered_count e s))) /\
  gossip_live (ep_key e) (m_gossip s) =
    (if Nat.eqb (registered_count e s) 0 then None else Some (itoa (Z.of_nat (registered_count e s)))) /\
  ((Z.of_nat (registered_count e s) < 2^63)%Z -> advertised_count e s = Some (Z.of_nat (registered_count e s))).
Proof. exact c05_counts_equal. Qed.
Example C05_counts_equal_hyp :
  let s := mrun (minit "n" "g" "p" "a")
             [MAdd 1 "e"; MAdd 2 "e"; MAdd 1 "e"; MRemove 1 "e"; MRemove 7 "e"; MRemove 2 "e1"; MSelect "e" true; MAdd 3 "E"] in
  registered_count "e" s = 2 /\ (Z.of_nat (registered_count "e" s) < 2^63)%Z /\
  gossip_live (ep_key "e") (m_gossip s) = Some "2" /\ gossip_live (ep_key "e1") (m_gossip s) = None /\
  gossip_live (ep_key "E") (m_gossip s) = Some "1".
Proof. vm_compute. repeat split. Qed.

(* "so an endpoint is advertised if and only if at least one upstream is connected" - on the gossip side, in the
   cluster state, and in the manager's own table *)
Theorem C05_advertised_iff_connected : forall id g p a ops e,
  let s := mrun (minit id g p a) ops in
  ((exists v, gossip_live (ep_key e) (m_gossip s) = Some v) <-> registered e ops <> []) /\
  ((exists c, lookup e (m_counts s) = Some c) <-> registered e ops <> []) /\
  ((exists b, lookup e (m_lbs s) = Some b) <-> registered e ops <> []).
Proof. exact c05_advertised_iff_connected. Qed.

(* The statement is FALSE of the pinned tree (defect D1, fixed in /repo by "fix: removing an already removed upstream
   must not decrement the advertised count"): with RemoveConn modelled as it was (RemoveLocalEndpoint whenever a
   balancer exists), [add u1 e; add u2 e; remove u1; remove u1] leaves one upstream registered and nothing
   advertised. The witness is the first corpus entry of the check. *)
Theorem C05_refuted_pinned : forall id g p a,
  let s := mrun_pinned (minit id g p a) [MAdd 1 "e"; MAdd 2 "e"; MRemove 1 "e"; MRemove 1 "e"] in
  registered_count "e" s = 1 /\ local_listeners "e" s = 0%N /\
  gossip_live (ep_key "e") (m_gossip s) = None /\ advertised_count "e" s = Some 0%Z.
Proof. exact c05_refuted_pinned. Qed.

(* the same witness on the model of the current code *)
Theorem C05_witness_fixed : forall id g p a,
  let s := mrun (minit id g p a) [MAdd 1 "e"; MAdd 2 "e"; MRemove 1 "e"; MRemove 1 "e"] in
  registered_count "e" s = 1 /\ local_listeners "e" s = 1%N /\
  gossip_live (ep_key "e") (m_gossip s) = Some "1" /\ advertised_count "e" s = Some 1%Z.
Proof. exact c05_witness_fixed. Qed.

(* ... and what the OTHER nodes make of it (Compose/EndToEnd.v, composing C05 with C02/C03, C14 and C04): once node
   a's gossip view V of node b has caught up with b's own state O - the one b's manager writes - a's routing table
   lists b as active, under its addresses, with a positive count for endpoint ep exactly when b's manager holds an
   upstream registered for ep. *)
Theorem C05_peers_routing_table_tells_the_truth :
  forall addr_of (ss : Cluster.Syncer.sstate) (sh : GossipP.WatchP.shadow) (c : Gossip.Apply.cstate) (x : string) (V O : node_state) (ms : mstate),
  ClusterP.FoldP.rel addr_of ss sh -> GossipP.WatchP.agree sh c -> x <> Cluster.Syncer.ss_local ss -> x <> Gossip.Apply.c_local c ->
  lookup x (Gossip.Apply.c_nodes c) = Some V ->
  (forall k, lookup k (n_ents V) = lookup k (n_ents O)) ->
  n_left V = false -> n_unreach V = false ->
  O = m_gossip ms -> minv ms ->
  (forall k e, lookup k (n_ents O) = Some e -> e_int e = GossipP.LocalP.internal_key k) ->
  (forall ep, (Z.of_nat (registered_count ep ms) < 2^63)%Z) ->
  GossipP.LocalP.live O "proxy_addr" <> None -> GossipP.LocalP.live O "admin_addr" <> None ->
  exists n, lookup x (Cluster.Syncer.ss_nodes ss) = Some n /\ Cluster.Syncer.cn_status n = Cluster.Syncer.SActive /\
            Cluster.Syncer.cn_proxy n = fst (addr_of x) /\ Cluster.Syncer.cn_admin n = snd (addr_of x) /\
            forall ep, (match lookup ep (Cluster.Syncer.cn_eps n) with Some k => (0 <? k)%Z | None => false end)
                       = (0 <? registered_count ep ms)%nat.
Proof. exact Compose.EndToEnd.routing_entry_is_managers_truth. Qed.

Print Assumptions C05_peers_routing_table_tells_the_truth.
Print Assumptions C05_counts_equal.
Print Assumptions C05_advertised_iff_connected.
Print Assumptions C05_refuted_pinned.
Print Assumptions C05_witness_fixed.
