(* Model of the phi-accrual failure detector, /repo/pkg/gossip/failuredetector.go.
   Models only (no proofs here).  Times and intervals are Z (nanoseconds), Go's int64 is modelled
   unbounded; the float64 results `mean` and `phi` are modelled as exact rationals, kept as a
   numerator / denominator pair over Z (see [phi]) and as a [Q] (see [phiQ]).
   The code is modelled as written, including
     - the circular buffer with `index` pointing one past the last written slot and wrapping lazily
       at the *next* Add,
     - `SuspicionLevelAt` on an unknown node creating a window holding the bootstrap sample,
     - the panic of `arrivalWindow.Phi` when nothing arrived yet or the mean is not positive. *)
From Coq Require Import List String ZArith QArith Bool.
From Piko Require Import Base.Maps.
Import ListNotations.
Open Scope list_scope.

(* failuredetector.go:9-18  type arrivalIntervals {intervals, index, isFull, sum, mean}
   (mean is always float64(sum)/float64(size()) after an Add; it is derived here, see [phi])
   failuredetector.go:56-60 type arrivalWindow {lastTimestamp, intervals, bootstrapInterval}
   w_last = None stands for the zero time.Time (`!lastTimestamp.After(time.Time{})`). *)
Record win := { w_ivs : list Z; w_idx : nat; w_full : bool; w_sum : Z; w_last : option Z; w_boot : Z }.

(* failuredetector.go:20-27 newArrivalIntervals(sampleSize) + :62-70 newArrivalWindow(bootstrap, sampleSize) *)
Definition new_win (boot : Z) (n : nat) : win :=
  {| w_ivs := repeat 0%Z n; w_idx := O; w_full := false; w_sum := 0%Z; w_last := None; w_boot := boot |}.

(* i.intervals[idx] = x *)
Fixpoint set_nth {A} (i : nat) (x : A) (l : list A) : list A :=
  match l, i with
  | [], _ => []
  | _ :: l', O => x :: l'
  | y :: l', S i' => y :: set_nth i' x l'
  end.

(* failuredetector.go:33-47 arrivalIntervals.Add(interval):
     if index == len(intervals) { index = 0; isFull = true }
     if isFull { sum -= intervals[index] }
     intervals[index] = interval; index++; sum += interval *)
Definition add_interval (iv : Z) (w : win) : win :=
  let '(idx, full) := if Nat.eqb (w_idx w) (List.length (w_ivs w)) then (O, true) else (w_idx w, w_full w) in
  let sum := if full then (w_sum w - nth idx (w_ivs w) 0)%Z else w_sum w in
  {| w_ivs := set_nth idx iv (w_ivs w); w_idx := S idx; w_full := full; w_sum := (sum + iv)%Z;
     w_last := w_last w; w_boot := w_boot w |}.

(* failuredetector.go:49-54 arrivalIntervals.size() *)
Definition win_size (w : win) : nat := if w_full w then List.length (w_ivs w) else w_idx w.

(* failuredetector.go:81-90 arrivalWindow.Add(timestamp): first arrival records the bootstrap interval *)
Definition report (ts : Z) (w : win) : win :=
  let w' := match w_last w with
            | Some l => add_interval (ts - l)%Z w
            | None => add_interval (w_boot w) w
            end in
  {| w_ivs := w_ivs w'; w_idx := w_idx w'; w_full := w_full w'; w_sum := w_sum w';
     w_last := Some ts; w_boot := w_boot w' |}.

(* failuredetector.go:72-79 arrivalWindow.Phi(timestamp):
     phi = float64(ts - last) / (float64(sum) / float64(size))   =  (ts - last) * size / sum
   returned as (numerator, denominator); None = the panic "cannot sample phi before any samples
   arrived" (no arrival yet, or mean <= 0, i.e. sum <= 0 since size >= 1 after an Add). *)
Definition phi (t : Z) (w : win) : option (Z * Z) :=
  match w_last w with
  | Some l => if (0 <? w_sum w)%Z then Some (((t - l) * Z.of_nat (win_size w))%Z, w_sum w) else None
  | None => None
  end.

(* the same value as a rational number (0 where the code panics) *)
Definition phiQ (t : Z) (w : win) : Q :=
  match phi t w with
  | Some (num, den) => inject_Z num / inject_Z den
  | None => 0
  end.

(* the samples currently in the window, oldest first (ghost view of the circular buffer) *)
Definition contents (w : win) : list Z :=
  if w_full w then skipn (w_idx w) (w_ivs w) ++ firstn (w_idx w) (w_ivs w) else firstn (w_idx w) (w_ivs w).

(* ---- accrualFailureDetector: one window per node id (failuredetector.go:102-121) ---- *)
Record fd := { d_wins : amap win; d_boot : Z; d_n : nat }.

(* failuredetector.go:112-121 newAccrualFailureDetector(bootstrapInterval, sampleSize) *)
Definition new_fd (boot : Z) (n : nat) : fd := {| d_wins := []; d_boot := boot; d_n := n |}.

Definition set_wins (d : fd) (m : amap win) : fd := {| d_wins := m; d_boot := d_boot d; d_n := d_n d |}.

(* failuredetector.go:130-143 ReportWithTimestamp(nodeID, timestamp) *)
Definition fd_report (id : string) (ts : Z) (d : fd) : fd :=
  let w := match lookup id (d_wins d) with Some w => w | None => new_win (d_boot d) (d_n d) end in
  set_wins d (insert id (report ts w) (d_wins d)).

(* failuredetector.go:159-175 SuspicionLevelAt(nodeID, timestamp): an unknown node gets a fresh window
   holding the bootstrap sample with lastTimestamp = the query time (so its level is 0 now and grows
   from here), and that window is stored. *)
Definition fd_level (id : string) (ts : Z) (d : fd) : fd * option (Z * Z) :=
  match lookup id (d_wins d) with
  | Some w => (d, phi ts w)
  | None =>
      let w := report ts (new_win (d_boot d) (d_n d)) in
      (set_wins d (insert id w (d_wins d)), phi ts w)
  end.

(* failuredetector.go:178-183 Remove(nodeID) *)
Definition fd_remove (id : string) (d : fd) : fd := set_wins d (remove id (d_wins d)).

(* the three calls made by the rest of the package (listener.go:326 Report, state.go:613 SuspicionLevel,
   state.go:600 Remove), with the wall-clock reading passed in *)
Inductive fdop := OReport (id : string) (ts : Z) | OLevel (id : string) (ts : Z) | ORemove (id : string).
Definition fd_step (d : fd) (o : fdop) : fd * option (Z * Z) :=
  match o with
  | OReport id ts => (fd_report id ts d, None)
  | OLevel id ts => fd_level id ts d
  | ORemove id => (fd_remove id d, None)
  end.
Definition fd_exec (ops : list fdop) (d : fd) : fd := fold_left (fun d o => fst (fd_step d o)) ops d.

(* gossip.go:22,283 / state.go:613-614  `suspicionLevel > suspicionThreshold` with threshold 20,
   decided on the exact rational: num/den > theta  <->  num > theta*den  (den > 0) *)
Definition suspicionThreshold : Z := 20.
Definition suspected (theta : Z) (p : Z * Z) : bool := (theta * snd p <? fst p)%Z.

(* ---- specification-side helpers (used by the theorems) ---- *)
(* inter-arrival times of t0 :: ts *)
Fixpoint diffs (prev : Z) (ts : list Z) : list Z :=
  match ts with
  | [] => []
  | t :: r => (t - prev)%Z :: diffs t r
  end.
(* the samples fed to the window by the arrival sequence ts: bootstrap :: differences *)
Definition intervals (boot : Z) (ts : list Z) : list Z :=
  match ts with
  | [] => []
  | t0 :: r => boot :: diffs t0 r
  end.
(* the last k elements *)
Definition lastn {A} (k : nat) (l : list A) : list A := skipn (List.length l - k) l.
Definition zsum (l : list Z) : Z := fold_right Z.add 0%Z l.
(* the window after the arrival sequence ts *)
Definition run (boot : Z) (n : nat) (ts : list Z) : win := fold_left (fun w t => report t w) ts (new_win boot n).

(* the arrival sequence the detector has recorded for peer id after a list of calls: reports since the
   last Remove, where a level query on an unknown peer counts as its first arrival; None = unknown *)
Definition track (id : string) (acc : option (list Z)) (o : fdop) : option (list Z) :=
  match o with
  | OReport i t => if String.eqb i id then Some (match acc with Some l => l | None => [] end ++ [t]) else acc
  | OLevel i t => if String.eqb i id then match acc with Some l => Some l | None => Some [t] end else acc
  | ORemove i => if String.eqb i id then None else acc
  end.
