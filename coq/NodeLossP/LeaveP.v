(* C18: a leave reaching a notified peer: LeaveLocal at the leaver, ApplyDelta of its full local delta at the peer,
   OnLeave at the peer's syncer, LookupEndpoint afterwards. Proved over the shared models Gossip/{Local,Apply}.v and
   Cluster/Syncer.v. *)
From Coq Require Import List String NArith ZArith Bool Lia.
From Piko Require Import Base.Maps Base.Strs Gossip.Types Gossip.Local Gossip.Apply Cluster.Syncer.
From Piko Require Import GossipP.SortP GossipP.LocalP GossipP.Valid ClusterP.SyncerP NodeLoss.NodeLoss.
Import ListNotations.
Open Scope string_scope. Open Scope list_scope.

(* ------------------------------------------------------------------ the leaver's state *)

(* what is needed of the leaver's own gossip state: no entry is newer than the node version, and a compaction marker
   carries a number (both are invariants of every reachable owner state, see OwnInv_leaver_ok) *)
Definition leaver_ok (O : node_state) : Prop :=
  (forall k e, In (k, e) (n_ents O) -> (e_ver e <= n_ver O)%N) /\
  (forall k e, In (k, e) (n_ents O) -> e_int e = true -> e_key e = compactKey -> parse_uint (e_val e) <> None).

Lemma OwnInv_leaver_ok O L : OwnInv O L -> leaver_ok O.
Proof.
  intros H. pose proof (O_l _ _ H) as HL. split.
  - intros k e Hin. apply (In_lookup _ _ _ (li_nodup _ HL)) in Hin. apply (li_ver _ HL _ _ Hin).
  - intros k e Hin _ Hk. apply (In_lookup _ _ _ (li_nodup _ HL)) in Hin.
    destruct (Oe _ _ H e (Oa _ _ H _ _ Hin) Hk) as [c [Hp _]]. rewrite Hp. discriminate.
Qed.

Lemma leave_local_id O : n_id (leave_local O) = n_id O.
Proof. unfold leave_local. destruct (n_left O); reflexivity. Qed.

Definition left_marker (O : node_state) : entry := mk_entry leftKey "" (n_ver O + 1) true false.

(* LocalDelta() after LeaveLocal: every older entry in version order, the left marker last *)
Lemma leave_delta_shape O :
  leaver_ok O -> n_left O = false ->
  exists l, de_ents (delta_entry_of (leave_local O) 0) = l ++ [left_marker O] /\
            forall x, In x l -> (e_ver x <= n_ver O)%N /\
                                (e_int x = true -> e_key x = compactKey -> parse_uint (e_val x) <> None).
Proof.
  intros [Hver Hmk] Hl. unfold leave_local. rewrite Hl. unfold delta_entry_of. cbn [n_ents de_ents].
  unfold insert, values. cbn [map snd filter]. fold (left_marker O).
  assert (Hpos : (0 <? e_ver (left_marker O))%N = true) by (apply N.ltb_lt; cbn; lia).
  rewrite Hpos.
  assert (Hsc : forall a r, sort_by_ver (a :: r) = ins_by_ver a (sort_by_ver r)) by reflexivity.
  rewrite Hsc.
  set (l := sort_by_ver _).
  assert (Hin : forall x, In x l -> exists k, In (k, x) (n_ents O)).
  { intros x Hx. subst l. apply (proj1 (In_sort _ _)) in Hx. apply (proj1 (filter_In _ _ _)) in Hx. destruct Hx as [Hx _].
    change (In x (values (remove leftKey (n_ents O)))) in Hx. apply In_values in Hx. destruct Hx as [k Hk].
    exists k. apply In_remove in Hk. tauto. }
  exists l. split.
  - apply ins_max. intros x Hx. destruct (Hin x Hx) as [k Hk]. specialize (Hver _ _ Hk). cbn. lia.
  - intros x Hx. destruct (Hin x Hx) as [k Hk]. split; [apply (Hver _ _ Hk)|apply (Hmk _ _ Hk)].
Qed.

(* ------------------------------------------------------------------ the peer's gossip state *)

(* events that never remove a node from a routing table *)
Definition benign (e : event) : Prop := match e with EExpired _ => False | _ => True end.

Lemma apply_entry_older now nid st x B :
  (n_ver st <= B)%N -> (e_ver x <= B)%N ->
  (e_int x = true -> e_key x = compactKey -> parse_uint (e_val x) <> None) ->
  exists st' ev, apply_entry now nid st x = (st', ev, false) /\ (n_ver st' <= B)%N /\ Forall benign ev.
Proof.
  intros Hst Hx Hmk. unfold apply_entry.
  destruct (e_ver x <=? n_ver st)%N; [exists st, []; repeat split; [exact Hst|constructor]|].
  destruct (e_int x) eqn:Ei.
  - destruct (String.eqb (e_key x) leftKey) eqn:Ek.
    + eexists _, _. split; [reflexivity|]. split; [cbn; exact Hx|]. repeat constructor.
    + destruct (String.eqb (e_key x) compactKey) eqn:Ec.
      * apply String.eqb_eq in Ec. specialize (Hmk eq_refl Ec).
        destruct (parse_uint (e_val x)) as [c|]; [|congruence].
        eexists _, _. split; [reflexivity|]. split; [cbn; exact Hx|].
        apply Forall_forall. intros e He. apply in_map_iff in He. destruct He as [y [<- _]]. exact I.
      * eexists _, _. split; [reflexivity|]. split; [cbn; exact Hx|constructor].
  - eexists _, _. split; [reflexivity|]. split; [cbn; exact Hx|]. repeat constructor; destruct (e_del x); exact I.
Qed.

Lemma apply_entries_marker_last now nid B m : forall l st,
  (n_ver st <= B)%N ->
  (forall x, In x l -> (e_ver x <= B)%N /\ (e_int x = true -> e_key x = compactKey -> parse_uint (e_val x) <> None)) ->
  e_ver m = (B + 1)%N -> e_int m = true -> e_key m = leftKey ->
  n_left (fst (apply_entries now nid st (l ++ [m]))) = true /\
  exists ev0, snd (apply_entries now nid st (l ++ [m])) = ev0 ++ [ELeave nid] /\ Forall benign ev0.
Proof.
  intros l. induction l as [|x l IH]; intros st Hst Hl Hv Hi Hk.
  - cbn [app apply_entries]. unfold apply_entry.
    assert (E : (e_ver m <=? n_ver st)%N = false) by (apply N.leb_gt; lia).
    rewrite E, Hi, Hk, String.eqb_refl. cbn. split; [reflexivity|]. exists []. split; [reflexivity|constructor].
  - cbn [app apply_entries].
    destruct (Hl x (or_introl eq_refl)) as [Hxv Hxm].
    destruct (apply_entry_older now nid st x B Hst Hxv Hxm) as [st' [ev [E [Hst' Hev]]]].
    rewrite E.
    specialize (IH st' Hst' (fun y Hy => Hl y (or_intror Hy)) Hv Hi Hk).
    destruct (apply_entries now nid st' (l ++ [m])) as [st'' ev'] eqn:E2. cbn [fst snd] in *.
    destruct IH as [Hleft [ev0 [Hev0 Hb]]]. split; [exact Hleft|].
    exists (ev ++ ev0). split; [rewrite Hev0, app_assoc; reflexivity|]. apply Forall_app. split; assumption.
Qed.

(* streamListener.leave at a peer: the view of the leaver becomes left, the last watcher event is OnLeave *)
Lemma leave_reaches_peer nows c O :
  leaver_ok O -> n_left O = false -> n_id O <> c_local c ->
  (forall V, lookup (n_id O) (c_nodes c) = Some V -> (n_ver V <= n_ver O)%N) ->
  (exists V', lookup (n_id O) (c_nodes (fst (apply_delta nows c (leave_delta O)))) = Some V' /\ n_left V' = true) /\
  exists ev0, snd (apply_delta nows c (leave_delta O)) = ev0 ++ [ELeave (n_id O)] /\ Forall benign ev0.
Proof.
  intros Hok Hl Hne Hview.
  destruct (leave_delta_shape O Hok Hl) as [l [Hshape Hold]].
  unfold leave_delta, apply_delta. cbn [fold_left]. unfold delta_step, apply_delta_entry.
  assert (Hid : de_id (delta_entry_of (leave_local O) 0) = n_id O) by (cbn; apply leave_local_id).
  rewrite Hid. apply String.eqb_neq in Hne. rewrite Hne. rewrite Hshape.
  set (now := now_of nows (n_id O)).
  assert (Hgen : forall st, (n_ver st <= n_ver O)%N ->
            n_left (fst (apply_entries now (n_id O) st (l ++ [left_marker O]))) = true /\
            exists ev0, snd (apply_entries now (n_id O) st (l ++ [left_marker O])) = ev0 ++ [ELeave (n_id O)] /\ Forall benign ev0).
  { intros st Hst. apply (apply_entries_marker_last now (n_id O) (n_ver O) (left_marker O) l st Hst Hold); reflexivity. }
  destruct (lookup (n_id O) (c_nodes c)) as [V|] eqn:EV.
  - destruct (Hgen V (Hview V eq_refl)) as [Hleft [ev0 [Hev Hb]]].
    destruct (apply_entries now (n_id O) V (l ++ [left_marker O])) as [st' ev]. cbn [fst snd] in *. split.
    + exists st'. cbn [c_nodes set_nodes fst snd]. rewrite lookup_insert_eq. split; [reflexivity|exact Hleft].
    + exists ev0. split; [exact Hev|exact Hb].
  - assert (H0 : (n_ver (new_node (n_id O) (de_addr (delta_entry_of (leave_local O) 0))) <= n_ver O)%N) by (cbn; lia).
    destruct (Hgen _ H0) as [Hleft [ev0 [Hev Hb]]].
    destruct (apply_entries now (n_id O) _ (l ++ [left_marker O])) as [st' ev]. cbn [fst snd] in *. split.
    + exists st'. cbn [c_nodes set_nodes fst snd]. rewrite lookup_insert_eq. split; [reflexivity|exact Hleft].
    + exists (EJoin (n_id O) :: ev0). split; [rewrite Hev; reflexivity|]. constructor; [exact I|exact Hb].
Qed.

(* ------------------------------------------------------------------ the peer's routing table *)

(* every entry of the routing table is filed under its node's id (an invariant of the syncer, on_event_wf) *)
Definition wf_nodes (s : sstate) : Prop := forall k n, In (k, n) (ss_nodes s) -> cn_id n = k.

Lemma wf_new id p a : wf_nodes (new_sstate id p a).
Proof. intros k n [H|[]]. injection H as <- <-. reflexivity. Qed.

(* one watcher callback changes the routing table by at most one insertion under the right key, or (expiry only)
   one removal *)
Definition shape (s s' : sstate) (e : event) : Prop :=
  ss_local s' = ss_local s /\
  (ss_nodes s' = ss_nodes s \/
   (exists k n, ss_nodes s' = insert k n (ss_nodes s) /\ (wf_nodes s -> cn_id n = k)) \/
   (exists k, e = EExpired k /\ ss_nodes s' = remove k (ss_nodes s))).

Ltac shape_same := split; [reflexivity|left; reflexivity].
Ltac shape_ins := split; [reflexivity|right; left; eexists _, _; split; [reflexivity|]].

Lemma wf_lookup s k n : wf_nodes s -> lookup k (ss_nodes s) = Some n -> cn_id n = k.
Proof. intros H Hl. apply H. apply lookup_In, Hl. Qed.

Lemma promote_shape s n e : shape s (promote s n) e.
Proof.
  unfold promote, add_node.
  destruct (negb (String.eqb (cn_proxy n) "") && negb (String.eqb (cn_admin n) "")); [|shape_same].
  cbn [cn_id ss_local set_pending ss_nodes].
  assert (Hid : cn_id (match cn_status n with SNone => with_status n SActive | _ => n end) = cn_id n) by (destruct (cn_status n); reflexivity).
  rewrite Hid. cbn [ss_local set_pending].
  destruct (String.eqb (cn_id n) (ss_local s)); [shape_same|].
  shape_ins. intros _. exact Hid.
Qed.

Lemma on_event_shape s e : shape s (on_event s e) e.
Proof.
  destruct e as [id|id|id|id|id k v|id k|id]; cbn [on_event].
  - (* join *) unfold on_join. destruct (String.eqb id (ss_local s)); [shape_same|].
    destruct (mem id (ss_nodes s)); [shape_same|]. destruct (mem id (ss_pending s)); shape_same.
  - (* leave *) unfold on_leave, update_remote_status. destruct (String.eqb id (ss_local s)); [shape_same|].
    destruct (lookup id (ss_nodes s)) as [n|] eqn:E; [|shape_same].
    shape_ins. intros Hwf. cbn. apply (wf_lookup _ _ _ Hwf E).
  - (* reachable *) unfold on_status, update_remote_status. destruct (String.eqb id (ss_local s)); [shape_same|].
    destruct (lookup id (ss_nodes s)) as [n|] eqn:E.
    + shape_ins. intros Hwf. cbn. apply (wf_lookup _ _ _ Hwf E).
    + destruct (lookup id (ss_pending s)); shape_same.
  - (* unreachable *) unfold on_status, update_remote_status. destruct (String.eqb id (ss_local s)); [shape_same|].
    destruct (lookup id (ss_nodes s)) as [n|] eqn:E.
    + shape_ins. intros Hwf. cbn. apply (wf_lookup _ _ _ Hwf E).
    + destruct (lookup id (ss_pending s)); shape_same.
  - (* upsert *) unfold on_upsert, update_remote_endpoint. destruct (String.eqb id (ss_local s)); [shape_same|].
    destruct ((String.eqb k "proxy_addr" || String.eqb k "admin_addr") && mem id (ss_nodes s)); [shape_same|].
    destruct (endpoint_of_key k) as [ep|].
    + destruct (atoi v) as [z|]; [|shape_same].
      destruct (lookup id (ss_nodes s)) as [n|] eqn:E.
      * shape_ins. intros Hwf. cbn. apply (wf_lookup _ _ _ Hwf E).
      * destruct (lookup id (ss_pending s)); [apply promote_shape|shape_same].
    + destruct (lookup id (ss_pending s)); [|shape_same].
      destruct (String.eqb k "proxy_addr"); [apply promote_shape|].
      destruct (String.eqb k "admin_addr"); [apply promote_shape|shape_same].
  - (* delete *) unfold on_delete, remove_remote_endpoint. destruct (String.eqb id (ss_local s)); [shape_same|].
    destruct (endpoint_of_key k) as [ep|]; [|shape_same].
    destruct (lookup id (ss_nodes s)) as [n|] eqn:E.
    + shape_ins. intros Hwf. cbn. apply (wf_lookup _ _ _ Hwf E).
    + destruct (lookup id (ss_pending s)); shape_same.
  - (* expired *) unfold on_expired, remove_node. destruct (String.eqb id (ss_local s)); [shape_same|].
    destruct (lookup id (ss_nodes s)); [|shape_same].
    split; [reflexivity|]. right; right. exists id. split; reflexivity.
Qed.

Lemma on_event_local s e : ss_local (on_event s e) = ss_local s.
Proof. apply (on_event_shape s e). Qed.

Lemma on_event_wf s e : wf_nodes s -> wf_nodes (on_event s e).
Proof.
  intros Hwf. destruct (on_event_shape s e) as [_ [H|[[k [n [H Hid]]]|[k [_ H]]]]]; intros k' n' Hin; rewrite H in Hin.
  - apply Hwf, Hin.
  - destruct Hin as [Heq|Hin]; [injection Heq as <- <-; apply Hid, Hwf|]. apply In_remove in Hin. apply Hwf, Hin.
  - apply In_remove in Hin. apply Hwf, Hin.
Qed.

Lemma on_event_keeps s e k : benign e -> lookup k (ss_nodes s) <> None -> lookup k (ss_nodes (on_event s e)) <> None.
Proof.
  intros Hb Hk. destruct (on_event_shape s e) as [_ [H|[[k0 [n [H _]]]|[k0 [He _]]]]].
  - rewrite H. exact Hk.
  - rewrite H, lookup_insert. destruct (String.eqb k k0); [discriminate|exact Hk].
  - subst e. destruct Hb.
Qed.

Lemma on_events_cons s e evs : on_events s (e :: evs) = on_events (on_event s e) evs.
Proof. reflexivity. Qed.

Lemma on_events_app s a b : on_events s (a ++ b) = on_events (on_events s a) b.
Proof. unfold on_events. apply fold_left_app. Qed.

Lemma on_events_local evs : forall s, ss_local (on_events s evs) = ss_local s.
Proof. induction evs as [|e evs IH]; intros s; [reflexivity|]. rewrite on_events_cons, IH. apply on_event_local. Qed.

Lemma on_events_wf evs : forall s, wf_nodes s -> wf_nodes (on_events s evs).
Proof. induction evs as [|e evs IH]; intros s H; [exact H|]. rewrite on_events_cons. apply IH, on_event_wf, H. Qed.

Lemma on_events_keeps evs k : forall s, Forall benign evs -> lookup k (ss_nodes s) <> None -> lookup k (ss_nodes (on_events s evs)) <> None.
Proof.
  induction evs as [|e evs IH]; intros s Hb Hk; [exact Hk|]. rewrite on_events_cons. inversion Hb; subst.
  apply IH; [assumption|]. apply on_event_keeps; assumption.
Qed.

(* LookupEndpoint never returns a node none of whose entries is active *)
Lemma not_candidate s id ep :
  wf_nodes s -> (forall n, In (id, n) (ss_nodes s) -> cn_status n <> SActive) -> ~ In id (lookup_candidates s ep).
Proof.
  intros Hwf Hst Hin. apply lookup_candidates_sound in Hin. destruct Hin as [n [Hv [Hid [_ [Hact _]]]]].
  apply In_values in Hv. destruct Hv as [k Hk]. pose proof (Hwf _ _ Hk) as Hkid. rewrite Hid in Hkid. subst k.
  exact (Hst n Hk Hact).
Qed.

(* OnLeave / OnUnreachable: afterwards the node is not a candidate, and if it was in the table its status is the new one *)
Lemma status_event_excludes s id st ep :
  wf_nodes s -> st <> SActive ->
  let s' := match st with SLeft => on_leave s id | _ => on_status s id st end in
  ~ In id (lookup_candidates s' ep) /\
  (id <> ss_local s -> forall n, lookup id (ss_nodes s) = Some n ->
     lookup id (ss_nodes s') = Some (with_status n st)).
Proof.
  intros Hwf Hst.
  assert (Hloc : String.eqb id (ss_local s) = true -> forall s0, ss_local s0 = ss_local s -> ~ In id (lookup_candidates s0 ep)).
  { intros E s0 Hs0 Hin. apply String.eqb_eq in E. apply lookup_candidates_sound in Hin.
    destruct Hin as [n [_ [_ [Hne _]]]]. congruence. }
  assert (Hnone : lookup id (ss_nodes s) = None -> forall s0, ss_nodes s0 = ss_nodes s -> wf_nodes s0 -> ~ In id (lookup_candidates s0 ep)).
  { intros E s0 Hs0 Hwf0. apply not_candidate; [exact Hwf0|]. intros n Hin. rewrite Hs0 in Hin.
    apply lookup_None_notin in E. exfalso. apply E. change id with (fst (id, n)). apply in_map, Hin. }
  assert (Hins : forall n, lookup id (ss_nodes s) = Some n ->
            ~ In id (lookup_candidates (set_cnodes s (insert id (with_status n st) (ss_nodes s))) ep)).
  { intros n E. apply not_candidate.
    - intros k' n' [Heq|Hin]; [injection Heq as <- <-; cbn; apply (wf_lookup _ _ _ Hwf E)|].
      apply In_remove in Hin. apply Hwf, Hin.
    - intros n' [Heq|Hin]; [injection Heq as <-; cbn; exact Hst|]. apply In_remove in Hin. destruct Hin as [_ Hne]. congruence. }
  destruct st; try congruence; cbn zeta.
  - (* SNone *) unfold on_status, update_remote_status. destruct (String.eqb id (ss_local s)) eqn:El.
    + split; [apply (Hloc eq_refl s eq_refl)|]. intros Hne. apply String.eqb_neq in Hne. congruence.
    + destruct (lookup id (ss_nodes s)) as [n|] eqn:E.
      * split; [apply (Hins n eq_refl)|]. intros _ n0 [= <-]. cbn. apply lookup_insert_eq.
      * split; [|intros _ n0 H0; discriminate]. destruct (lookup id (ss_pending s)); apply (Hnone eq_refl); auto.
  - (* SUnreach *) unfold on_status, update_remote_status. destruct (String.eqb id (ss_local s)) eqn:El.
    + split; [apply (Hloc eq_refl s eq_refl)|]. intros Hne. apply String.eqb_neq in Hne. congruence.
    + destruct (lookup id (ss_nodes s)) as [n|] eqn:E.
      * split; [apply (Hins n eq_refl)|]. intros _ n0 [= <-]. cbn. apply lookup_insert_eq.
      * split; [|intros _ n0 H0; discriminate]. destruct (lookup id (ss_pending s)); apply (Hnone eq_refl); auto.
  - (* SLeft *) unfold on_leave, update_remote_status. destruct (String.eqb id (ss_local s)) eqn:El.
    + split; [apply (Hloc eq_refl s eq_refl)|]. intros Hne. apply String.eqb_neq in Hne. congruence.
    + destruct (lookup id (ss_nodes s)) as [n|] eqn:E.
      * split; [apply (Hins n eq_refl)|]. intros _ n0 [= <-]. cbn. apply lookup_insert_eq.
      * split; [|intros _ n0 H0; discriminate]. apply (Hnone eq_refl); auto.
Qed.

(* ------------------------------------------------------------------ composition *)

Theorem notified_peer_stops_routing nows c s O ep c' s' evs :
  leaver_ok O -> n_left O = false ->
  n_id O <> c_local c -> ss_local s = c_local c ->
  (forall V, lookup (n_id O) (c_nodes c) = Some V -> (n_ver V <= n_ver O)%N) ->
  wf_nodes s ->
  peer_receives_leave nows c s O = (c', s', evs) ->
  (exists V', lookup (n_id O) (c_nodes c') = Some V' /\ n_left V' = true) /\
  (exists evs0, evs = evs0 ++ [ELeave (n_id O)]) /\
  (forall n, lookup (n_id O) (ss_nodes s) = Some n ->
     exists n', lookup (n_id O) (ss_nodes s') = Some n' /\ cn_status n' = SLeft) /\
  ~ In (n_id O) (lookup_candidates s' ep).
Proof.
  intros Hok Hl Hne Hloc Hview Hwf Hrun. unfold peer_receives_leave in Hrun.
  destruct (leave_reaches_peer nows c O Hok Hl Hne Hview) as [Hleft [ev0 [Hev Hb]]].
  destruct (apply_delta nows c (leave_delta O)) as [c1 evs1] eqn:E. cbn [fst snd] in *.
  injection Hrun as <- <- <-. subst evs1.
  split; [exact Hleft|]. split; [exists ev0; reflexivity|].
  rewrite on_events_app. set (s1 := on_events s ev0).
  assert (Hwf1 : wf_nodes s1) by (apply on_events_wf, Hwf).
  assert (Hloc1 : ss_local s1 = ss_local s) by apply on_events_local.
  change (on_events s1 [ELeave (n_id O)]) with (on_leave s1 (n_id O)).
  destruct (status_event_excludes s1 (n_id O) SLeft ep Hwf1 ltac:(discriminate)) as [Hex Hst]. cbn zeta in Hex, Hst.
  split; [|exact Hex].
  intros n Hn. assert (Hk : lookup (n_id O) (ss_nodes s1) <> None) by (apply on_events_keeps; [exact Hb|congruence]).
  destruct (lookup (n_id O) (ss_nodes s1)) as [n1|] eqn:E1; [|congruence].
  exists (with_status n1 SLeft). split; [|reflexivity]. apply Hst; [congruence|reflexivity].
Qed.

(* crash: the detector's verdict at a survivor (UpdateLiveness) raises OnUnreachable, after which the survivor does not
   route to the node *)
Lemma liveness_raises_unreachable local suspect nows V :
  n_id V <> local -> n_left V = false -> n_unreach V = false -> suspect (n_id V) = true ->
  snd (liveness_node local suspect nows V) = [EUnreach (n_id V)] /\ n_unreach (fst (liveness_node local suspect nows V)) = true.
Proof.
  intros Hne Hl Hu Hs. unfold liveness_node. apply String.eqb_neq in Hne. rewrite Hne, Hl, Hs, Hu. cbn. split; reflexivity.
Qed.

Theorem crash_detected_stops_routing local suspect nows V s ep :
  n_id V <> local -> n_left V = false -> n_unreach V = false -> suspect (n_id V) = true ->
  wf_nodes s -> ss_local s = local ->
  let s' := on_events s (snd (liveness_node local suspect nows V)) in
  ~ In (n_id V) (lookup_candidates s' ep) /\
  forall n, lookup (n_id V) (ss_nodes s) = Some n -> lookup (n_id V) (ss_nodes s') = Some (with_status n SUnreach).
Proof.
  intros Hne Hl Hu Hs Hwf Hloc. destruct (liveness_raises_unreachable local suspect nows V Hne Hl Hu Hs) as [Hev _].
  rewrite Hev. cbn zeta. change (on_events s [EUnreach (n_id V)]) with (on_status s (n_id V) SUnreach).
  destruct (status_event_excludes s (n_id V) SUnreach ep Hwf ltac:(discriminate)) as [Hex Hst]. cbn zeta in Hex, Hst.
  split; [exact Hex|]. intros n Hn. apply Hst; [congruence|exact Hn].
Qed.
