(* C18: the server shutdown sequence (server/server.go Server.Shutdown). *)
From Coq Require Import List String NArith ZArith Bool Lia Permutation.
From Piko Require Import Base.Maps Base.Strs NodeLoss.NodeLoss.
Import ListNotations.
Open Scope string_scope. Open Scope list_scope.

(* the advertised counts agree with the connected upstreams (C05 / C16: count = registered connections) *)
Definition counts_ok (conns : list string) (m : amap Z) : Prop :=
  forall ep, match lookup ep m with
             | Some c => c = count_conns conns ep /\ (0 < c)%Z
             | None => count_conns conns ep = 0%Z
             end.

Lemma count_conns_cons_eq e conns : count_conns (e :: conns) e = (count_conns conns e + 1)%Z.
Proof. unfold count_conns. cbn [filter]. rewrite String.eqb_refl. cbn [List.length]. lia. Qed.

Lemma count_conns_cons_ne e ep conns : ep <> e -> count_conns (e :: conns) ep = count_conns conns ep.
Proof. intros H. unfold count_conns. cbn [filter]. apply String.eqb_neq in H. rewrite H. reflexivity. Qed.

Lemma count_conns_nonneg conns ep : (0 <= count_conns conns ep)%Z.
Proof. unfold count_conns. lia. Qed.

Lemma remove_one_notin ep l : existsb (String.eqb ep) l = false -> remove_one ep l = l.
Proof.
  induction l as [|x r IH]; cbn; [reflexivity|]. destruct (String.eqb ep x); cbn; [discriminate|]. intros H. rewrite IH; auto.
Qed.

Lemma count_remove_one_eq ep l : existsb (String.eqb ep) l = true -> count_conns (remove_one ep l) ep = (count_conns l ep - 1)%Z.
Proof.
  induction l as [|x r IH]; cbn [existsb remove_one]; [discriminate|].
  destruct (String.eqb ep x) eqn:E.
  - intros _. apply String.eqb_eq in E. subst x. rewrite count_conns_cons_eq. lia.
  - cbn [orb]. intros H. assert (Hne : ep <> x) by (apply String.eqb_neq, E).
    rewrite !(count_conns_cons_ne _ _ _ Hne). apply IH, H.
Qed.

Lemma count_remove_one_ne ep x l : x <> ep -> count_conns (remove_one ep l) x = count_conns l x.
Proof.
  intros Hne. induction l as [|y r IH]; cbn [remove_one]; [reflexivity|].
  destruct (String.eqb ep y) eqn:E.
  - apply String.eqb_eq in E. subst y. rewrite (count_conns_cons_ne _ _ _ Hne). reflexivity.
  - destruct (String.eqb x y) eqn:E2.
    + apply String.eqb_eq in E2. subst y. rewrite !count_conns_cons_eq, IH. reflexivity.
    + apply String.eqb_neq in E2. rewrite !(count_conns_cons_ne _ _ _ E2). exact IH.
Qed.

(* one handler exit keeps "advertised = connected" *)
Lemma counts_ok_exit e conns m :
  counts_ok conns m -> existsb (String.eqb e) conns = true -> counts_ok (remove_one e conns) (dec_ep m e).
Proof.
  intros H Hin ep. unfold dec_ep. pose proof (H e) as He.
  pose proof (count_remove_one_eq e conns Hin) as Hce.
  pose proof (count_conns_nonneg (remove_one e conns) e) as Hnn.
  destruct (lookup e m) as [c|] eqn:El; [|lia].
  destruct He as [Hc Hpos].
  destruct (c =? 0)%Z eqn:E0; [apply Z.eqb_eq in E0; lia|].
  destruct (String.eqb ep e) eqn:Ee.
  - apply String.eqb_eq in Ee. subst ep.
    destruct (1 <? c)%Z eqn:E1.
    + rewrite lookup_insert_eq. apply Z.ltb_lt in E1. lia.
    + rewrite lookup_remove_eq. apply Z.ltb_ge in E1. lia.
  - apply String.eqb_neq in Ee. pose proof (H ep) as Hep. rewrite (count_remove_one_ne e ep conns Ee).
    destruct (1 <? c)%Z.
    + rewrite (lookup_insert_ne _ _ _ _ Ee). exact Hep.
    + rewrite (lookup_remove_ne _ _ _ Ee). exact Hep.
Qed.

Lemma counts_ok_nil m : counts_ok [] m -> forall ep, lookup ep m = None.
Proof.
  intros H ep. specialize (H ep). destruct (lookup ep m) as [c|]; [|reflexivity]. unfold count_conns in H. cbn in H. lia.
Qed.

Lemma counts_ok_eps_of_conns_step m conns e :
  counts_ok conns m ->
  counts_ok (conns ++ [e]) (insert e (match lookup e m with Some c => c + 1 | None => 1 end)%Z m).
Proof.
  intros H ep. assert (Hc : forall x, count_conns (conns ++ [e]) x = (count_conns conns x + if String.eqb x e then 1 else 0)%Z).
  { intros x. unfold count_conns. rewrite filter_app, app_length. cbn [filter]. destruct (String.eqb x e); cbn [List.length]; lia. }
  rewrite Hc. destruct (String.eqb ep e) eqn:Ee.
  - apply String.eqb_eq in Ee. subst ep. rewrite lookup_insert_eq. specialize (H e).
    destruct (lookup e m) as [c|]; lia.
  - apply String.eqb_neq in Ee. rewrite (lookup_insert_ne _ _ _ _ Ee). specialize (H ep).
    destruct (lookup ep m) as [c|]; lia.
Qed.

Lemma counts_ok_eps_of_conns_gen conns : forall pre m, counts_ok pre m ->
  counts_ok (pre ++ conns) (fold_left (fun m ep => insert ep (match lookup ep m with Some c => c + 1 | None => 1 end)%Z m) conns m).
Proof.
  induction conns as [|e conns IH]; intros pre m H; cbn [fold_left].
  - rewrite app_nil_r. exact H.
  - replace (pre ++ e :: conns) with ((pre ++ [e]) ++ conns) by (rewrite <- app_assoc; reflexivity).
    apply IH, counts_ok_eps_of_conns_step, H.
Qed.

(* the hypothesis of the theorem is satisfiable for every set of connections *)
Lemma counts_ok_eps_of_conns conns : counts_ok conns (eps_of_conns conns).
Proof.
  unfold eps_of_conns. apply (counts_ok_eps_of_conns_gen conns [] []). intros ep. reflexivity.
Qed.

(* ------------------------------------------------------------------ schedules *)

(* at every point of every schedule the node advertises exactly its remaining connections *)
Lemma step_counts_ok n s :
  counts_ok (ns_conns n) (ns_eps n) -> counts_ok (ns_conns (shutdown_step n s)) (ns_eps (shutdown_step n s)).
Proof.
  intros H. destruct s; cbn [shutdown_step ns_conns ns_eps]; try exact H.
  destruct (existsb (String.eqb ep) (ns_conns n)) eqn:E; [|exact H]. cbn [ns_conns ns_eps]. apply counts_ok_exit; assumption.
Qed.

Lemma run_counts_ok sched : forall n,
  counts_ok (ns_conns n) (ns_eps n) -> counts_ok (ns_conns (run_script n sched)) (ns_eps (run_script n sched)).
Proof.
  induction sched as [|s sched IH]; intros n H; [exact H|]. cbn [run_script fold_left]. apply IH, step_counts_ok, H.
Qed.

(* the connections left after a schedule: one removed per handler exit *)
Lemma run_conns sched : forall n,
  ns_conns (run_script n sched) = fold_left (fun l ep => remove_one ep l) (exits_of sched) (ns_conns n).
Proof.
  induction sched as [|s sched IH]; intros n; [reflexivity|]. cbn [run_script fold_left]. fold (run_script (shutdown_step n s) sched).
  rewrite IH. destruct s; cbn [exits_of flat_map app fold_left shutdown_step ns_conns]; try reflexivity.
  fold (exits_of sched). destruct (existsb (String.eqb ep) (ns_conns n)) eqn:E; cbn [ns_conns]; [reflexivity|].
  rewrite (remove_one_notin _ _ E). reflexivity.
Qed.

Lemma perm_remove_one e l : In e l -> Permutation l (e :: remove_one e l).
Proof.
  induction l as [|x r IH]; cbn [remove_one]; [intros []|].
  destruct (String.eqb e x) eqn:E.
  - apply String.eqb_eq in E. subst x. intros _. apply Permutation_refl.
  - intros [H|H]; [subst x; rewrite String.eqb_refl in E; discriminate|].
    eapply perm_trans; [apply perm_skip, IH, H|apply perm_swap].
Qed.

Lemma drain exits : forall conns, Permutation exits conns -> fold_left (fun l ep => remove_one ep l) exits conns = [].
Proof.
  induction exits as [|e ex IH]; intros conns H; cbn [fold_left].
  - apply Permutation_nil in H. exact H.
  - apply IH. assert (Hin : In e conns) by (eapply Permutation_in; [exact H|left; reflexivity]).
    apply (Permutation_cons_inv (a := e)). eapply perm_trans; [exact H|apply perm_remove_one, Hin].
Qed.

(* the flags: a schedule acts on them as the steps of Shutdown alone do *)
Definition erase (n : nstate) : nstate :=
  {| ns_ready := ns_ready n; ns_upstream_open := ns_upstream_open n; ns_cancelled := ns_cancelled n; ns_conns := []; ns_eps := [];
     ns_proxy_open := ns_proxy_open n; ns_left := ns_left n; ns_notified := ns_notified n;
     ns_gossip_open := ns_gossip_open n; ns_admin_open := ns_admin_open n |}.

Lemma erase_step n s : erase (shutdown_step n s) = if is_exit s then erase n else shutdown_step (erase n) s.
Proof. destruct s; cbn; try reflexivity. destruct (existsb (String.eqb ep) (ns_conns n)); reflexivity. Qed.

Lemma erase_run sched : forall n, erase (run_script n sched) = run_script (erase n) (script_of sched).
Proof.
  induction sched as [|s sched IH]; intros n; [reflexivity|]. cbn [run_script fold_left]. fold (run_script (shutdown_step n s) sched).
  rewrite IH, erase_step. unfold script_of. cbn [filter]. destruct (is_exit s); cbn [negb]; reflexivity.
Qed.

(* the shutdown sequence, whatever the node was serving and however the runtime schedules the handlers' exits *)
Lemma shutdown_withdraws conns eps live sched :
  counts_ok conns eps ->
  script_of sched = shutdown_script live ->
  Permutation (exits_of sched) conns ->
  let fin := run_script (serving conns eps) sched in
  ns_ready fin = false /\ ns_upstream_open fin = false /\ ns_cancelled fin = true /\
  ns_conns fin = [] /\ (forall ep, lookup ep (ns_eps fin) = None) /\
  ns_proxy_open fin = false /\ ns_left fin = true /\ ns_notified fin = notified_of live /\
  ns_gossip_open fin = false /\ ns_admin_open fin = false.
Proof.
  intros Hc Hs Hp fin.
  assert (Hconns : ns_conns fin = []) by (unfold fin; rewrite run_conns; apply drain, Hp).
  assert (Hok : counts_ok (ns_conns fin) (ns_eps fin)) by (apply run_counts_ok, Hc).
  rewrite Hconns in Hok.
  assert (He : erase fin = run_script (erase (serving conns eps)) (shutdown_script live)) by (unfold fin; rewrite erase_run, Hs; reflexivity).
  cbn in He.
  assert (Hf : forall (f : nstate -> bool), (forall n, f (erase n) = f n) -> f fin = f (erase fin)) by (intros f Hfe; symmetry; apply Hfe).
  repeat split; try exact Hconns; try (apply counts_ok_nil, Hok).
  - rewrite (Hf ns_ready (fun _ => eq_refl)), He. reflexivity.
  - rewrite (Hf ns_upstream_open (fun _ => eq_refl)), He. reflexivity.
  - rewrite (Hf ns_cancelled (fun _ => eq_refl)), He. reflexivity.
  - rewrite (Hf ns_proxy_open (fun _ => eq_refl)), He. reflexivity.
  - rewrite (Hf ns_left (fun _ => eq_refl)), He. reflexivity.
  - change (ns_notified fin) with (ns_notified (erase fin)). rewrite He. reflexivity.
  - rewrite (Hf ns_gossip_open (fun _ => eq_refl)), He. reflexivity.
  - rewrite (Hf ns_admin_open (fun _ => eq_refl)), He. reflexivity.
Qed.

(* the upstream shutdown is INITIATED before the departure is announced (the handlers may still be on their way out): in
   every schedule of Shutdown the cancellation step comes before the leave step, and until the leave step the node has
   not left *)
Lemma cancel_before_leave live :
  exists pre post, shutdown_script live = pre ++ StLeave live :: post /\ In StUpstream pre /\
                   forall n, ns_left n = false -> ns_left (run_script n pre) = false.
Proof.
  exists [StNotReady; StUpstream; StProxy], [StGossipClose; StAdmin]. split; [reflexivity|]. split; [right; left; reflexivity|].
  intros n H. exact H.
Qed.

(* the leave stream goes to at most 4 peers, all of them live peers, and to every live peer when there are at most 4 *)
Lemma notified_bound live :
  (List.length (notified_of live) <= 4)%nat /\ (forall p, In p (notified_of live) -> In p live) /\
  ((List.length live <= 4)%nat -> notified_of live = live).
Proof.
  unfold notified_of. split; [rewrite firstn_length; lia|]. split.
  - intros p Hp. rewrite <- (firstn_skipn 4 live). apply in_or_app. left; exact Hp.
  - intros Hl. apply firstn_all2. exact Hl.
Qed.
