(* C18: the hypotheses of the theorems are satisfiable by non-trivial states (checked by computation). *)
From Coq Require Import List String NArith ZArith Bool Lia.
From Piko Require Import Base.Maps Base.Strs Gossip.Types Gossip.Local Gossip.Apply Cluster.Syncer.
From Piko Require Import NodeLoss.NodeLoss NodeLossP.ShutdownP NodeLossP.LeaveP NodeLossP.RecoveryP.
Import ListNotations.
Open Scope string_scope. Open Scope list_scope.

(* the leaver "a" as its syncer built it: addresses, then two endpoints, one of them removed again *)
Definition ex_leaver : node_state :=
  local_run (new_node "a" "10.0.0.1:8003")
    [LUpsert "proxy_addr" "10.0.0.1:8000"; LUpsert "admin_addr" "10.0.0.1:8002";
     LUpsert "endpoint:e" "1"; LUpsert "endpoint:f" "2"; LDelete "endpoint:f"].

(* peer "b" knows "a" up to version 3 (it has not heard of endpoint f at all) *)
Definition ex_peer_view : node_state :=
  local_run (new_node "a" "10.0.0.1:8003")
    [LUpsert "proxy_addr" "10.0.0.1:8000"; LUpsert "admin_addr" "10.0.0.1:8002"; LUpsert "endpoint:e" "1"].

Definition ex_peer : cstate :=
  {| c_local := "b"; c_nodes := [("b", new_node "b" "10.0.0.2:8003"); ("a", ex_peer_view)] |}.

Definition ex_route : sstate :=
  {| ss_local := "b";
     ss_nodes := [("b", {| cn_id := "b"; cn_status := SActive; cn_proxy := "10.0.0.2:8000"; cn_admin := "10.0.0.2:8002"; cn_eps := [] |});
                  ("a", {| cn_id := "a"; cn_status := SActive; cn_proxy := "10.0.0.1:8000"; cn_admin := "10.0.0.1:8002"; cn_eps := [("e", 1%Z)] |})];
     ss_pending := []; ss_synced := true |}.

Ltac split_in :=
  repeat match goal with
         | H : _ \/ _ |- _ => destruct H
         | H : False |- _ => destruct H
         | H : (_, _) = (_, _) |- _ => injection H as <- <-
         end.

Example ex_leaver_ok : leaver_ok ex_leaver /\ n_left ex_leaver = false /\ n_ver ex_leaver = 5%N.
Proof.
  split; [|split; reflexivity]. split; intros k e Hin; vm_compute in Hin; split_in; vm_compute; try discriminate; try congruence.
Qed.

Example ex_hypotheses :
  n_id ex_leaver <> c_local ex_peer /\ ss_local ex_route = c_local ex_peer /\ wf_nodes ex_route /\
  (forall V, lookup (n_id ex_leaver) (c_nodes ex_peer) = Some V -> (n_ver V <= n_ver ex_leaver)%N) /\
  lookup_candidates ex_route "e" = ["a"].
Proof.
  split; [discriminate|]. split; [reflexivity|]. split.
  - intros k n Hin. cbn in Hin. split_in; reflexivity.
  - split; [|reflexivity]. intros V HV. vm_compute in HV. injection HV as <-. vm_compute. discriminate.
Qed.

(* and the conclusion, computed: b had "a" as its only candidate for e; afterwards none, status left, and the
   syncer saw: the tombstone of endpoint f (the upsert it replaced is never sent), then the leave *)
Example ex_leave_computed :
  let '(c', s', evs) := peer_receives_leave [] ex_peer ex_route ex_leaver in
  evs = [EDelete "a" "endpoint:f"; ELeave "a"] /\
  lookup_candidates s' "e" = [] /\
  option_map cn_status (lookup "a" (ss_nodes s')) = Some SLeft /\
  option_map n_left (lookup "a" (c_nodes c')) = Some true.
Proof. vm_compute. repeat split. Qed.

(* the shutdown sequence on a node with three connections on two endpoints and 5 live peers; one handler returns before
   the proxy is shut down, one after the leave was announced, one after gossip was closed *)
Definition ex_sched : list shstep :=
  [StNotReady; StUpstream; StExit "e"; StProxy; StLeave ["p1"; "p2"; "p3"; "p4"; "p5"]; StExit "f"; StGossipClose; StExit "e"; StAdmin].

Example ex_shutdown :
  let n := serving ["e"; "f"; "e"] (eps_of_conns ["e"; "f"; "e"]) in
  ns_eps n = [("e", 2%Z); ("f", 1%Z)] /\
  script_of ex_sched = shutdown_script ["p1"; "p2"; "p3"; "p4"; "p5"] /\ exits_of ex_sched = ["e"; "f"; "e"] /\
  ns_eps (run_script n [StNotReady; StUpstream; StExit "e"; StProxy; StLeave ["p1"; "p2"; "p3"; "p4"; "p5"]]) = [("e", 1%Z); ("f", 1%Z)] /\
  run_script n ex_sched =
  {| ns_ready := false; ns_upstream_open := false; ns_cancelled := true; ns_conns := []; ns_eps := []; ns_proxy_open := false;
     ns_left := true; ns_notified := ["p1"; "p2"; "p3"; "p4"]; ns_gossip_open := false; ns_admin_open := false |}.
Proof. vm_compute. repeat split. Qed.

(* recovery: "a" was lost; survivors b and c. The listener of e is registered on b. b still holds a stale entry for the
   lost node (left, e:1), c has it as unreachable. *)
Definition ex_sb : sstate :=
  {| ss_local := "b";
     ss_nodes := [("b", {| cn_id := "b"; cn_status := SActive; cn_proxy := "pb"; cn_admin := "ab"; cn_eps := [("e", 1%Z)] |});
                  ("a", {| cn_id := "a"; cn_status := SLeft; cn_proxy := "pa"; cn_admin := "aa"; cn_eps := [("e", 1%Z)] |});
                  ("c", {| cn_id := "c"; cn_status := SActive; cn_proxy := "pc"; cn_admin := "ac"; cn_eps := [] |})];
     ss_pending := []; ss_synced := true |}.
Definition ex_sc : sstate :=
  {| ss_local := "c";
     ss_nodes := [("c", {| cn_id := "c"; cn_status := SActive; cn_proxy := "pc"; cn_admin := "ac"; cn_eps := [] |});
                  ("a", {| cn_id := "a"; cn_status := SUnreach; cn_proxy := "pa"; cn_admin := "aa"; cn_eps := [("e", 1%Z)] |});
                  ("b", {| cn_id := "b"; cn_status := SActive; cn_proxy := "pb"; cn_admin := "ab"; cn_eps := [("e", 1%Z)] |})];
     ss_pending := []; ss_synced := true |}.
Definition ex_cluster : cluster := [("b", ex_sb); ("c", ex_sc)].

Example ex_settled : forall a sa, lookup a ex_cluster = Some sa -> settled ex_cluster "e" a sa.
Proof.
  intros a sa H. unfold ex_cluster in H. cbn [lookup] in H.
  destruct (String.eqb a "b") eqn:Eb; [apply String.eqb_eq in Eb; subst a; injection H as <-|].
  - constructor; try reflexivity.
    + intros k n Hin. cbn in Hin. split_in; reflexivity.
    + intros b sb Hb Hne. cbn [lookup ex_cluster] in Hb.
      destruct (String.eqb b "b") eqn:E1; [apply String.eqb_eq in E1; congruence|].
      destruct (String.eqb b "c") eqn:E2; [|discriminate]. apply String.eqb_eq in E2. subst b.
      eexists. split; [right; right; left; reflexivity|reflexivity].
    + intros b n sb Hin Hne Hb Hact. cbn in Hin. split_in; try congruence; try discriminate.
      vm_compute in Hb. injection Hb as <-. reflexivity.
    + intros k n Hin Hne Hk. cbn in Hin. split_in; try congruence; try discriminate.
  - destruct (String.eqb a "c") eqn:Ec; [|discriminate]. apply String.eqb_eq in Ec; subst a; injection H as <-.
    constructor; try reflexivity.
    + intros k n Hin. cbn in Hin. split_in; reflexivity.
    + intros b sb Hb Hne. cbn [lookup ex_cluster] in Hb.
      destruct (String.eqb b "b") eqn:E1.
      * apply String.eqb_eq in E1. subst b. eexists. split; [right; right; left; reflexivity|reflexivity].
      * destruct (String.eqb b "c") eqn:E2; [|discriminate]. apply String.eqb_eq in E2. congruence.
    + intros b n sb Hin Hne Hb Hact. cbn in Hin. split_in; try congruence; try discriminate.
      vm_compute in Hb. injection Hb as <-. reflexivity.
    + intros k n Hin Hne Hk. cbn in Hin. split_in; try congruence; try discriminate.
Qed.

Example ex_recovery : forall a sa, lookup a ex_cluster = Some sa -> served_from ex_cluster sa "e".
Proof.
  apply recovery; [|exact ex_settled]. exists "b", ex_sb. split; [reflexivity|vm_compute; reflexivity].
Qed.
