(* C18: recovery on the survivors - composition statement over Cluster.Syncer.lookup_candidates and the local registry. *)
From Coq Require Import List String NArith ZArith Bool Lia.
From Piko Require Import Base.Maps Base.Strs Gossip.Types Cluster.Syncer ClusterP.SyncerP NodeLoss.NodeLoss NodeLossP.LeaveP.
Import ListNotations.
Open Scope string_scope. Open Scope list_scope.

(* node a's routing information is settled with respect to the surviving cluster w and endpoint ep:
   - its table is filed under node ids and it is one of the survivors;
   - every other survivor is in the table as active;
   - what an ACTIVE entry about a survivor says about ep is the truth (that survivor's own registry);
   - every entry about a node that is not a survivor (the lost node) is not active (left / unreachable). *)
Record settled (w : cluster) (ep : string) (a : string) (sa : sstate) : Prop := {
  st_local : ss_local sa = a;
  st_wf : wf_nodes sa;
  st_present : forall b sb, lookup b w = Some sb -> b <> a -> exists n, In (b, n) (ss_nodes sa) /\ cn_status n = SActive;
  st_truth : forall b n sb, In (b, n) (ss_nodes sa) -> b <> a -> lookup b w = Some sb -> cn_status n = SActive ->
                            lookup ep (cn_eps n) = lookup ep (local_eps sb);
  st_lost : forall k n, In (k, n) (ss_nodes sa) -> k <> a -> lookup k w = None -> cn_status n <> SActive;
}.

Lemma local_count_pos s ep : (0 < local_count s ep)%Z -> exists c, lookup ep (local_eps s) = Some c /\ (0 < c)%Z.
Proof. unfold local_count. destruct (lookup ep (local_eps s)) as [c|]; [intros H; exists c; auto|lia]. Qed.

(* if some listener of ep is registered on a survivor and every survivor is settled, a request for ep is served from
   every survivor: locally, or by forwarding to a node that LookupEndpoint can return - and EVERY node it can return is
   a survivor with a local upstream for ep (never the lost node) *)
Theorem recovery w ep :
  (exists b sb, lookup b w = Some sb /\ (0 < local_count sb ep)%Z) ->
  (forall a sa, lookup a w = Some sa -> settled w ep a sa) ->
  forall a sa, lookup a w = Some sa -> served_from w sa ep.
Proof.
  intros [b [sb [Hb Hcnt]]] Hset a sa Ha. pose proof (Hset a sa Ha) as S.
  destruct (Z_lt_le_dec 0 (local_count sa ep)) as [Hloc|Hloc]; [left; exact Hloc|]. right.
  assert (Hne : b <> a) by (intros ->; rewrite Ha in Hb; injection Hb as ->; lia).
  split.
  - destruct (st_present _ _ _ _ S b sb Hb Hne) as [n [Hin Hact]].
    destruct (local_count_pos _ _ Hcnt) as [c [Hc Hpos]].
    pose proof (st_truth _ _ _ _ S b n sb Hin Hne Hb Hact) as Ht. rewrite Hc in Ht.
    pose proof (st_wf _ _ _ _ S _ _ Hin) as Hid.
    assert (Hcand : In (cn_id n) (lookup_candidates sa ep)).
    { apply (lookup_candidates_complete sa ep n c); auto.
      - apply In_values. exists b. exact Hin.
      - rewrite Hid, (st_local _ _ _ _ S). exact Hne. }
    intros E. rewrite E in Hcand. destruct Hcand.
  - intros c Hc. apply lookup_candidates_sound in Hc.
    destruct Hc as [n [Hv [Hid [Hnl [Hact [cnt [Hcnt' Hpos]]]]]]].
    apply In_values in Hv. destruct Hv as [k Hk]. pose proof (st_wf _ _ _ _ S _ _ Hk) as Hkid. rewrite Hid in Hkid. subst k.
    rewrite (st_local _ _ _ _ S) in Hnl.
    destruct (lookup c w) as [sc|] eqn:Ec.
    + exists sc. split; [reflexivity|].
      pose proof (st_truth _ _ _ _ S c n sc Hk Hnl Ec Hact) as Ht. unfold local_count. rewrite <- Ht, Hcnt'. exact Hpos.
    + exfalso. exact (st_lost _ _ _ _ S c n Hk Hnl Ec Hact).
Qed.

(* the lost node is never chosen once the survivors are settled *)
Corollary recovery_never_lost w ep a sa x :
  settled w ep a sa -> lookup x w = None -> ~ In x (lookup_candidates sa ep).
Proof.
  intros S Hx Hin. apply lookup_candidates_sound in Hin.
  destruct Hin as [n [Hv [Hid [Hnl [Hact _]]]]].
  apply In_values in Hv. destruct Hv as [k Hk]. pose proof (st_wf _ _ _ _ S _ _ Hk) as Hkid. rewrite Hid in Hkid. subst k.
  rewrite (st_local _ _ _ _ S) in Hnl. exact (st_lost _ _ _ _ S x n Hk Hnl Hx Hact).
Qed.
