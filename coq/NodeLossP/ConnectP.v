(* Proofs about NodeLoss/Connect.v *)
From Coq Require Import List Bool Arith Lia.
From Piko Require Import NodeLoss.Connect.
Import ListNotations.

(* a dial that starts after the context was cancelled never yields a session; a session that IS established was dialled at a
   position where the context was still live *)
Lemma connect_loop_connected done p dials q :
  fst (connect_loop done p dials) = KConnected q -> p <= q /\ done q = false.
Proof.
  revert p. induction dials as [|d r IH]; intros p; cbn [connect_loop fst]; [discriminate|].
  destruct (done p) eqn:Ep; [discriminate|].
  destruct d.
  - intros [= <-]. split; [lia|exact Ep].
  - destruct (done (S p)); [discriminate|]. intros H. destruct (IH (S (S p)) H) as [H1 H2]. split; [lia|exact H2].
  - destruct (done (S p)); discriminate.
Qed.

Theorem no_session_once_cancelled done p dials :
  monotone done -> done p = true -> forall q, fst (connect_loop done p dials) <> KConnected q.
Proof.
  intros Hm Hp q H. destruct (connect_loop_connected done p dials q H) as [Hle Hq].
  rewrite (Hm p q Hle Hp) in Hq. discriminate.
Qed.

(* "client close ... it is deregistered" stays true: with the close context handed to connect (the code as it is), whatever
   the schedule - when the session is lost, when Close/Shutdown is called, how the dials go - no session is ever established
   by a dial that started after the listener was closed *)
Theorem closed_listener_never_reconnects accept_done close_done p dials q :
  monotone close_done ->
  on_session_lost UseCloseCtx accept_done close_done p dials = AReconnected q -> close_done q = false.
Proof.
  intros Hm. unfold on_session_lost. destruct (accept_done p); [discriminate|]. destruct (close_done p) eqn:Ec; [discriminate|].
  destruct (fst (connect_loop close_done p dials)) as [q'| | |] eqn:E; try discriminate.
  intros [= <-]. apply (connect_loop_connected close_done p dials q' E).
Qed.

(* handing the Accept context to connect instead loses that: the listener is closed while the server is unreachable (two
   refused dials), the server comes back, and the closed listener connects *)
Theorem accept_ctx_variant_refuted :
  exists accept_done close_done p dials q,
    monotone accept_done /\ monotone close_done /\
    on_session_lost UseAcceptCtx accept_done close_done p dials = AReconnected q /\ close_done q = true.
Proof.
  exists (fun _ => false), (fun k => 2 <=? k), 0, [DialRetryable; DialRetryable; DialOk], 4.
  split; [intros p q _ H; discriminate|]. split.
  - intros p q Hle H. apply Nat.leb_le in H. apply Nat.leb_le. lia.
  - split; reflexivity.
Qed.

(* the same schedule with the code as it is: the reconnect attempt ends with the close context's error *)
Example close_ctx_on_that_schedule :
  on_session_lost UseCloseCtx (fun _ => false) (fun k => 2 <=? k) 0 [DialRetryable; DialRetryable; DialOk] = AConnectErr.
Proof. reflexivity. Qed.

(* and a listener that is NOT closed does reconnect once the server is back (D4: the listener must come back) *)
Example open_listener_reconnects :
  on_session_lost UseCloseCtx (fun _ => false) (fun _ => false) 0 [DialRetryable; DialRetryable; DialOk] = AReconnected 4.
Proof. reflexivity. Qed.
