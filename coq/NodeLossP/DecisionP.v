(* C18: the client listener's reconnect decision (client/listener.go AcceptWithContext). *)
From Coq Require Import List String NArith ZArith Bool Lia.
From Piko Require Import NodeLoss.NodeLoss.
Import ListNotations.

(* the three clauses of the decision, for every way the loss can surface *)
Lemma reconnect_decision :
  (forall e, accept_decision false false e = DReconnect) /\
  (forall e, accept_decision false true e = DErrClosed) /\
  (forall cl e, accept_decision true cl e = DCtxErr).
Proof. repeat split; intros; reflexivity. Qed.

(* the decision returns exactly in those cases: a live context and no local close never ends the listener *)
Lemma decision_returns_iff cc cl e :
  accept_decision cc cl e <> DReconnect <-> (cc = true \/ cl = true).
Proof.
  destruct cc, cl; cbn; split; intros H; try tauto; try discriminate; try (right; reflexivity); try (left; reflexivity).
  destruct H; discriminate.
Qed.

(* the pinned (pre-D4) decision gave up on a remote close: the server closing the connection surfaces as
   net.ErrClosed / ErrSessionShutdown with a live context and no local close *)
Lemma pinned_refuted :
  exists e, accept_decision_pinned false false e = DErrClosed /\ accept_decision false false e = DReconnect.
Proof. exists ENetClosed. split; reflexivity. Qed.

Lemma pinned_differs_exactly cc cl e :
  accept_decision_pinned cc cl e <> accept_decision cc cl e <->
  cc = false /\ ((cl = false /\ e <> EOtherErr) \/ (cl = true /\ e = EOtherErr)).
Proof.
  destruct cc, cl, e; cbn; split; intros H; try tauto; try discriminate;
    try (exfalso; apply H; reflexivity);
    try (split; [reflexivity|]; first [left; split; [reflexivity|discriminate] | right; split; reflexivity]);
    try (destruct H as [H _]; discriminate);
    try (destruct H as [_ [[H1 H2]|[H1 H2]]]; try discriminate; try (exfalso; apply H2; reflexivity)).
Qed.

(* the loop: however often the session is lost (any error classes), as long as nobody closed the listener, the
   context is live and the reconnection succeeds, Accept does not return an error; it returns the next stream *)
Lemma accept_loop_survives errs :
  accept_loop (map (fun e => AErr false false e CConnected) errs ++ [AStream]) = OConn /\
  accept_loop (map (fun e => AErr false false e CConnected) errs) = OBlocked.
Proof. induction errs as [|e errs IH]; cbn; [split; reflexivity|exact IH]. Qed.

(* Accept returns ErrClosed only if the listener was closed locally *)
Lemma accept_loop_errclosed its :
  accept_loop its = OErrClosed -> exists e c, In (AErr false true e c) its.
Proof.
  induction its as [|[|cc cl e c] its IH]; cbn; try discriminate.
  destruct cc; cbn; [discriminate|]. destruct cl; cbn.
  - intros _. exists e, c. left; reflexivity.
  - destruct c; try discriminate. intros H. destruct (IH H) as [e' [c' Hin]]. exists e', c'. right; exact Hin.
Qed.
