(* Proofs about pkg/backoff/backoff.go and the timed reconnection loop (NodeLoss/Backoff.v). *)
From Coq Require Import List ZArith Bool Lia.
From Piko Require Import NodeLoss.Backoff.
Import ListNotations.
Local Open Scope Z_scope.

Ltac Zify.zify_post_hook ::= Z.div_mod_to_equations.

Definition cap (b : bo) : Z := bo_max b + bo_max b / 10 + 1.

(* the state invariant: the last wait is 0 (no call yet) or at least min(min,max), and never above the cap *)
Definition bo_inv (b : bo) : Prop :=
  0 <= bo_min b /\ 0 <= bo_max b /\ 0 <= bo_last b <= cap b /\ (bo_last b = 0 \/ Z.min (bo_min b) (bo_max b) <= bo_last b).

Lemma base_wait_le_max b : 0 <= bo_max b -> base_wait b <= bo_max b.
Proof.
  intros Hm. unfold base_wait.
  destruct (bo_last b =? 0); destruct (Z.gtb_spec (bo_min b) (bo_max b)); try lia;
  destruct (Z.gtb_spec (2 * bo_last b) (bo_max b)); lia.
Qed.

Lemma base_wait_ge b : bo_inv b -> Z.min (bo_min b) (bo_max b) <= base_wait b.
Proof.
  intros (Hmin & Hmax & Hl & Hlow). unfold base_wait.
  destruct (Z.eqb_spec (bo_last b) 0) as [E|E].
  - destruct (Z.gtb_spec (bo_min b) (bo_max b)); lia.
  - destruct Hlow as [H0|Hlow]; [lia|].
    destruct (Z.gtb_spec (2 * bo_last b) (bo_max b)); lia.
Qed.

Lemma base_wait_nonneg b : bo_inv b -> 0 <= base_wait b.
Proof. intros H. pose proof (base_wait_ge b H) as G. destruct H as (? & ? & ? & ?). lia. Qed.

(* after the first call the base wait is twice the last wait, capped *)
Lemma base_wait_doubles b : bo_last b <> 0 -> base_wait b = Z.min (2 * bo_last b) (bo_max b).
Proof.
  intros H. unfold base_wait. destruct (Z.eqb_spec (bo_last b) 0); [contradiction|].
  destruct (Z.gtb_spec (2 * bo_last b) (bo_max b)); lia.
Qed.

Lemma valid_wait_bounds base w : valid_wait base w = true -> base <= w <= base + base / 10 + 1.
Proof. unfold valid_wait. intros H. apply andb_true_iff in H. destruct H as [A B]. apply Z.leb_le in A, B. lia. Qed.

Lemma step_inv b w b' w' :
  bo_inv b -> valid_wait (base_wait b) w = true -> backoff_step b w = Some (b', w') ->
  bo_inv b' /\ w' = w /\ Z.min (bo_min b) (bo_max b) <= w <= cap b /\
  bo_retries b' = bo_retries b /\ bo_min b' = bo_min b /\ bo_max b' = bo_max b /\ bo_last b' = w /\
  bo_attempts b' = bo_attempts b + 1.
Proof.
  intros Hinv Hv Hs. unfold backoff_step in Hs.
  destruct (negb (bo_retries b =? 0) && (bo_attempts b >? bo_retries b)); [discriminate|].
  inversion Hs; subst b' w'; clear Hs. cbn [bo_retries bo_min bo_max bo_last bo_attempts].
  pose proof (valid_wait_bounds _ _ Hv) as Hb.
  pose proof (base_wait_ge b Hinv) as Hge.
  assert (Hle : base_wait b <= bo_max b) by (apply base_wait_le_max; destruct Hinv as (? & ? & ?); assumption).
  pose proof (base_wait_nonneg b Hinv) as Hnn.
  destruct Hinv as (Hmin & Hmax & Hl & Hlow).
  assert (Hcap : w <= cap b) by (unfold cap; lia).
  unfold bo_inv, cap in *; cbn [bo_retries bo_min bo_max bo_last bo_attempts].
  repeat split; lia.
Qed.

Lemma new_inv r mn mx : 0 <= mn -> 0 <= mx -> bo_inv (bo_new r mn mx).
Proof. intros A B. unfold bo_inv, bo_new, cap; cbn [bo_min bo_max bo_last]. repeat split; try lia. Qed.

Lemma step_abort_iff b w :
  backoff_step b w = None <-> (bo_retries b <> 0 /\ bo_attempts b > bo_retries b).
Proof.
  unfold backoff_step. destruct (Z.eqb_spec (bo_retries b) 0) as [E|E]; cbn [negb andb].
  - split; [discriminate|intros [H _]; contradiction].
  - destruct (Z.gtb_spec (bo_attempts b) (bo_retries b)); split; try discriminate; try tauto; intros; try lia; reflexivity.
Qed.

(* retries = 0: no call ever aborts, whatever the jitter *)
Lemma forever_never_aborts b ws : bo_retries b = 0 -> ~ In None (backoff_run b ws).
Proof.
  revert b. induction ws as [|w r IH]; intros b H0 HIn; [exact HIn|].
  cbn [backoff_run] in HIn.
  destruct (backoff_step b w) as [[b' w']|] eqn:E.
  - destruct HIn as [HIn|HIn]; [discriminate|].
    apply (IH b'); [|exact HIn].
    unfold backoff_step in E. destruct (negb (bo_retries b =? 0) && (bo_attempts b >? bo_retries b)); [discriminate|].
    inversion E; subst. cbn [bo_retries]. exact H0.
  - apply step_abort_iff in E. destruct E as [E _]. contradiction.
Qed.

(* every wait handed out lies between min(min,max) and max + 10% (+1ns), for every history of calls *)
Lemma waits_bounded b ws w :
  bo_inv b -> legal_run b ws = true -> In (Some w) (backoff_run b ws) ->
  Z.min (bo_min b) (bo_max b) <= w <= cap b.
Proof.
  revert b. induction ws as [|x r IH]; intros b Hinv Hl HIn; [destruct HIn|].
  cbn [backoff_run legal_run] in *.
  destruct (backoff_step b x) as [[b' w']|] eqn:E.
  - apply andb_true_iff in Hl. destruct Hl as [Hv Hl].
    destruct (step_inv _ _ _ _ Hinv Hv E) as (Hinv' & -> & Hb & _ & Hmn & Hmx & _).
    destruct HIn as [HIn|HIn].
    + inversion HIn; subst. exact Hb.
    + specialize (IH b' Hinv' Hl HIn). unfold cap in *. rewrite Hmn, Hmx in IH. exact IH.
  - destruct HIn as [HIn|HIn]; [discriminate|]. apply (IH b Hinv Hl HIn).
Qed.

(* exponential growth: two consecutive waits w1, w2 satisfy w2 >= min(2*w1, max) *)
Lemma consecutive_doubles b w1 w2 b1 b2 :
  bo_inv b -> valid_wait (base_wait b) w1 = true -> backoff_step b w1 = Some (b1, w1) ->
  0 < bo_min b -> 0 < bo_max b ->
  valid_wait (base_wait b1) w2 = true -> backoff_step b1 w2 = Some (b2, w2) ->
  Z.min (2 * w1) (bo_max b) <= w2.
Proof.
  intros Hinv Hv1 Hs1 Hmin Hmax Hv2 Hs2.
  destruct (step_inv _ _ _ _ Hinv Hv1 Hs1) as (Hinv1 & _ & Hb1 & _ & Hmn & Hmx & Hlast & _).
  assert (Hne : bo_last b1 <> 0) by lia.
  pose proof (base_wait_doubles b1 Hne) as Hd. rewrite Hlast, Hmx in Hd.
  pose proof (valid_wait_bounds _ _ Hv2). lia.
Qed.

(* retries = n > 0 from a fresh backoff: exactly the first n+1 calls are granted, every later call aborts *)
Lemma retries_exact_gen b ws :
  0 < bo_retries b -> 0 <= bo_attempts b ->
  forall k, (k < length ws)%nat ->
  (exists w, nth k (backoff_run b ws) None = Some w) <-> bo_attempts b + Z.of_nat k <= bo_retries b.
Proof.
  revert b. induction ws as [|x r IH]; intros b Hr Ha k Hk; [cbn in Hk; lia|].
  cbn [backoff_run].
  destruct (backoff_step b x) as [[b' w']|] eqn:E.
  - assert (Hn : ~ (bo_retries b <> 0 /\ bo_attempts b > bo_retries b)).
    { intros H. apply (proj2 (step_abort_iff b x)) in H. rewrite E in H. discriminate. }
    unfold backoff_step in E. destruct (negb (bo_retries b =? 0) && (bo_attempts b >? bo_retries b)); [discriminate|].
    inversion E; subst b' w'; clear E.
    destruct k as [|k]; cbn [nth].
    + split; [intros _; lia|intros _; eexists; reflexivity].
    + cbn [length] in Hk. rewrite (IH _ ); cbn [bo_retries bo_attempts]; try lia.
  - apply step_abort_iff in E. destruct E as [E1 E2].
    destruct k as [|k]; cbn [nth].
    + split; [intros [w Hw]; discriminate|intros; lia].
    + cbn [length] in Hk. rewrite (IH b Hr Ha k); lia.
Qed.

Lemma retries_exact n mn mx ws k :
  0 < n -> (k < length ws)%nat ->
  (exists w, nth k (backoff_run (bo_new n mn mx) ws) None = Some w) <-> Z.of_nat k <= n.
Proof.
  intros Hn Hk. rewrite (retries_exact_gen (bo_new n mn mx) ws); cbn [bo_new bo_retries bo_attempts]; try lia.
Qed.

(* ---- the reconnection loop over time *)

(* consecutive dials: the next one starts between lo and hi after the previous one failed *)
Fixpoint gaps_within (lo hi : Z) (starts : list Z) (dws : list (Z * Z)) : Prop :=
  match starts, dws with
  | s :: ((s' :: _) as r), (d, _) :: dr => lo <= s' - (s + d) <= hi /\ gaps_within lo hi r dr
  | _, _ => True
  end.

Fixpoint legal_dials (b : bo) (dws : list (Z * Z)) : bool :=
  match dws with
  | [] => true
  | (d, w) :: r => match backoff_step b w with
                   | None => legal_dials b r
                   | Some (b', _) => valid_wait (base_wait b) w && legal_dials b' r
                   end
  end.

Lemma dial_starts_head s b dws : exists r, dial_starts s b dws = s :: r.
Proof. destruct dws as [|[d w] r]; cbn [dial_starts]; [eexists; reflexivity|]. destruct (backoff_step b w) as [[? ?]|]; eexists; reflexivity. Qed.

Lemma gaps_cons lo hi s s' tl d w dr :
  gaps_within lo hi (s :: s' :: tl) ((d, w) :: dr) <-> (lo <= s' - (s + d) <= hi /\ gaps_within lo hi (s' :: tl) dr).
Proof. reflexivity. Qed.

Lemma redial_gaps s b dws :
  bo_inv b -> bo_retries b = 0 -> legal_dials b dws = true ->
  gaps_within (Z.min (bo_min b) (bo_max b)) (cap b) (dial_starts s b dws) dws.
Proof.
  revert s b. induction dws as [|[d w] r IH]; intros s b Hinv H0 Hl; [exact I|].
  cbn [dial_starts legal_dials] in *.
  destruct (backoff_step b w) as [[b' w']|] eqn:E.
  - apply andb_true_iff in Hl. destruct Hl as [Hv Hl].
    destruct (step_inv _ _ _ _ Hinv Hv E) as (Hinv' & -> & Hb & Hr & Hmn & Hmx & _).
    destruct (dial_starts_head (s + d + w) b' r) as [tl Htl]. rewrite Htl. apply gaps_cons.
    split; [lia|]. rewrite <- Htl.
    specialize (IH (s + d + w) b' Hinv'). unfold cap in *. rewrite Hmn, Hmx, Hr in IH. apply IH; assumption.
  - apply step_abort_iff in E. destruct E as [E _]. contradiction.
Qed.

(* once the server is reachable again (from time T on) the loop dials it within one dial duration plus one capped wait:
   the first dial that starts at or after T is the very first of the loop or starts no later than T + D + cap *)
Lemma redial_within s b dws T D :
  bo_inv b -> bo_retries b = 0 -> legal_dials b dws = true ->
  (forall d w, In (d, w) dws -> 0 <= d <= D) ->
  T <= last (dial_starts s b dws) s ->
  exists t, In t (dial_starts s b dws) /\ T <= t /\ (t = s \/ t <= T + D + cap b).
Proof.
  revert s b. induction dws as [|[d w] r IH]; intros s b Hinv H0 Hl Hd Hlast.
  - cbn [dial_starts last] in *. exists s. split; [left; reflexivity|]. split; [exact Hlast|left; reflexivity].
  - destruct (Z_le_gt_dec T s) as [Hs|Hs].
    { destruct (dial_starts_head s b ((d, w) :: r)) as [tl Htl]. exists s. rewrite Htl. split; [left; reflexivity|]. split; [exact Hs|left; reflexivity]. }
    cbn [dial_starts legal_dials] in *.
    destruct (backoff_step b w) as [[b' w']|] eqn:E.
    + apply andb_true_iff in Hl. destruct Hl as [Hv Hl].
      destruct (step_inv _ _ _ _ Hinv Hv E) as (Hinv' & -> & Hb & Hr & Hmn & Hmx & _).
      assert (Hdd : 0 <= d <= D) by (apply (Hd d w); left; reflexivity).
      destruct (dial_starts_head (s + d + w) b' r) as [tl Htl].
      assert (Hlast' : T <= last (dial_starts (s + d + w) b' r) (s + d + w)).
      { rewrite Htl in Hlast |- *. cbn [last] in Hlast. destruct tl as [|x tl]; cbn [last] in *; [exact Hlast|].
        (* last of non-empty tail does not depend on the default *)
        clear - Hlast. revert x Hlast. induction tl as [|y tl IHt]; intros x Hl; cbn [last] in *; [exact Hl|]. apply IHt. exact Hl. }
      destruct (IH (s + d + w) b' Hinv' (eq_trans Hr H0) Hl (fun d0 w0 HIn => Hd d0 w0 (or_intror HIn)) Hlast')
        as (t & HIn & HT & Hcase).
      exists t. split; [right; exact HIn|]. split; [exact HT|]. right.
      destruct Hcase as [->|Hle].
      * unfold cap in *. lia.
      * unfold cap in *. rewrite Hmx in Hle. lia.
    + apply step_abort_iff in E. destruct E as [E _]. contradiction.
Qed.

(* the backoff Upstream.connect builds satisfies the hypotheses for every configuration with non-negative fields, and its
   bounds are the documented defaults when the fields are zero *)
Lemma connect_backoff_ok cmin cmax :
  0 <= cmin -> 0 <= cmax ->
  bo_inv (connect_backoff cmin cmax) /\ bo_retries (connect_backoff cmin cmax) = 0 /\
  0 < bo_min (connect_backoff cmin cmax) /\ 0 < bo_max (connect_backoff cmin cmax).
Proof.
  intros A B. unfold connect_backoff. split; [apply new_inv; destruct (cmin =? 0); destruct (cmax =? 0); lia|].
  cbn [bo_new bo_retries bo_min bo_max]. split; [reflexivity|].
  destruct (Z.eqb_spec cmin 0); destruct (Z.eqb_spec cmax 0); lia.
Qed.

Lemma connect_backoff_defaults :
  bo_min (connect_backoff 0 0) = 100000000 /\ bo_max (connect_backoff 0 0) = 15000000000 /\
  cap (connect_backoff 0 0) = 16500000001.
Proof. repeat split. Qed.

(* a computed run: min 100, max 1000, jitter outcomes at both ends of their ranges *)
Example ex_backoff_run :
  legal_run (bo_new 0 100 1000) [100; 220; 440; 968; 1000; 1101] = true /\
  backoff_run (bo_new 0 100 1000) [100; 220; 440; 968; 1000; 1101] = [Some 100; Some 220; Some 440; Some 968; Some 1000; Some 1101] /\
  legal_run (bo_new 0 100 1000) [100; 222] = false /\
  backoff_run (bo_new 2 100 1000) [100; 200; 400; 800; 1000] = [Some 100; Some 200; Some 400; None; None] /\
  dial_starts 0 (bo_new 0 100 1000) [(5, 100); (7, 210); (5, 420)] = [0; 105; 322; 747].
Proof. vm_compute. repeat split. Qed.

(* ---- which failures are retried *)
(* a listener never gives up on transient failures: if no dial of the script fails with a non-retryable status the loop is
   still retrying at the end of the script or has connected - and it dials until the first success *)
Lemma connect_script_transient rs :
  (forall r, In r rs -> dial_fatal r = false) ->
  snd (connect_script rs) <> Some false /\
  (forall pre post, rs = pre ++ DRConnected :: post -> ~ In DRConnected pre ->
     connect_script rs = (S (List.length pre), Some true)).
Proof.
  induction rs as [|r rest IH]; intros H.
  - split; [cbn; discriminate|]. intros pre post E. destruct pre; discriminate.
  - assert (Hr : dial_fatal r = false) by (apply H; left; reflexivity).
    assert (Hrest : forall x, In x rest -> dial_fatal x = false) by (intros x Hx; apply H; right; exact Hx).
    destruct (IH Hrest) as [IH1 IH2]. split.
    + cbn [connect_script]. destruct r; [cbn; discriminate| |]; rewrite Hr; destruct (connect_script rest) as [n o]; exact IH1.
    + intros pre post E Hn. destruct pre as [|p pre'].
      * cbn [app] in E. inversion E; subst. reflexivity.
      * cbn [app] in E. inversion E; subst p rest.
        assert (Hp : r <> DRConnected) by (intros ->; apply Hn; left; reflexivity).
        cbn [connect_script]. destruct r; [contradiction| |]; rewrite Hr;
          rewrite (IH2 pre' post eq_refl (fun HIn => Hn (or_intror HIn))); reflexivity.
Qed.

(* a non-retryable answer ends the loop at once *)
Lemma connect_script_fatal r rest : dial_fatal r = true -> connect_script (r :: rest) = (1%nat, Some false).
Proof. intros H. cbn [connect_script]. destruct r; try discriminate. rewrite H. reflexivity. Qed.

Example ex_retryable :
  map retryable_status [408; 429; 500; 502; 503; 504; 400; 401; 403; 404; 301; 501; 200] =
  [true; true; true; true; true; true; false; false; false; false; false; false; false] /\
  connect_script [DRNoResponse; DRStatus 503; DRStatus 502; DRConnected; DRStatus 401] = (4%nat, Some true) /\
  connect_script [DRStatus 500; DRStatus 401; DRConnected] = (2%nat, Some false).
Proof. vm_compute. repeat split. Qed.

(* ---- exponential growth, quantitatively: the k-th wait of a run (k = 0 first) is at least min(2^k * base, max), where base
   is the base wait of the state the run starts from (min for a fresh backoff) *)
Lemma kth_wait_lower : forall ws b k w,
  bo_inv b -> bo_retries b = 0 -> 0 < bo_min b -> 0 < bo_max b -> legal_run b ws = true ->
  nth_error (backoff_run b ws) k = Some (Some w) ->
  Z.min (2 ^ Z.of_nat k * base_wait b) (bo_max b) <= w.
Proof.
  induction ws as [|x r IH]; intros b k w Hinv H0 Hmin Hmax Hl Hn.
  - destruct k; discriminate.
  - cbn [backoff_run legal_run] in *.
    destruct (backoff_step b x) as [[b' w']|] eqn:E.
    + apply andb_true_iff in Hl. destruct Hl as [Hv Hl].
      destruct (step_inv _ _ _ _ Hinv Hv E) as (Hinv' & -> & Hb & Hr & Hmn & Hmx & Hlast & _).
      pose proof (valid_wait_bounds _ _ Hv) as Hvb.
      pose proof (base_wait_nonneg b Hinv) as Hbn.
      destruct k as [|k].
      * cbn [nth_error] in Hn. inversion Hn; subst w. cbn [Z.of_nat]. rewrite Z.pow_0_r. lia.
      * cbn [nth_error] in Hn.
        assert (Hne : bo_last b' <> 0).
        { rewrite Hlast. pose proof (base_wait_ge b Hinv). lia. }
        specialize (IH b' k w Hinv' (eq_trans Hr H0) ltac:(lia) ltac:(lia) Hl Hn).
        rewrite (base_wait_doubles b' Hne), Hlast, Hmx in IH.
        rewrite Nat2Z.inj_succ, Z.pow_succ_r by lia.
        assert (Hp : 1 <= 2 ^ Z.of_nat k) by (apply Z.pow_le_mono_r with (b := 0) (c := Z.of_nat k) (a := 2); lia).
        (* 2^k * min(2x, M) >= min(2^(k+1) * base, M) because x >= base, 2^k >= 1 *)
        assert (Hx : base_wait b <= x) by lia.
        destruct (Z.min_spec (2 * x) (bo_max b)) as [[_ Em]|[_ Em]]; rewrite Em in IH;
          destruct (Z.min_spec (2 ^ Z.of_nat k * (2 * x)) (bo_max b)) as [[_ E1]|[_ E1]];
          destruct (Z.min_spec (2 * 2 ^ Z.of_nat k * base_wait b) (bo_max b)) as [[_ E2]|[_ E2]];
          try rewrite E1 in IH; try rewrite E2; try nia;
          destruct (Z.min_spec (2 ^ Z.of_nat k * bo_max b) (bo_max b)) as [[_ E3]|[_ E3]]; try rewrite E3 in IH; nia.
    + apply step_abort_iff in E. destruct E as [E _]. contradiction.
Qed.

(* for the backoff the reconnection loop builds: the k-th wait is at least min(2^k * min, max) - 100 ms, 200 ms, 400 ms, ...
   up to 15 s with the defaults - and never above max + 10 % *)
Lemma connect_kth_wait cmin cmax ws k w :
  0 <= cmin -> 0 <= cmax -> legal_run (connect_backoff cmin cmax) ws = true ->
  nth_error (backoff_run (connect_backoff cmin cmax) ws) k = Some (Some w) ->
  Z.min (2 ^ Z.of_nat k * Z.min (bo_min (connect_backoff cmin cmax)) (bo_max (connect_backoff cmin cmax))) (bo_max (connect_backoff cmin cmax)) <= w
  /\ w <= cap (connect_backoff cmin cmax).
Proof.
  intros A B Hl Hn. destruct (connect_backoff_ok cmin cmax A B) as (Hinv & H0 & Hmin & Hmax).
  split.
  - pose proof (kth_wait_lower ws _ k w Hinv H0 Hmin Hmax Hl Hn) as H.
    pose proof (base_wait_ge _ Hinv) as Hg.
    assert (Hp : 0 <= 2 ^ Z.of_nat k) by (apply Z.pow_nonneg; lia).
    etransitivity; [|exact H]. apply Z.min_le_compat_r. apply Z.mul_le_mono_nonneg_l; assumption.
  - apply (waits_bounded _ ws w Hinv Hl). eapply nth_error_In. exact Hn.
Qed.
