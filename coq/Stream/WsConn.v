(* Model of pkg/websocket.Conn (the net.Conn adapter over a gorilla websocket) — /repo/pkg/websocket/conn.go.

   The connection is seen from the READING side: [inbox] is the sequence of websocket messages the peer
   has sent and that gorilla's NextReader will hand out, [cur] is Conn.reader, the partially consumed
   message reader.  The model is polymorphic in the byte type [A]: Conn never inspects payload bytes
   (StreamP/WsConnP.v proves the naturality lemma [read_map]), which lets the correspondence check run it
   on real bytes as well as on stream positions.

   No proofs in this file. *)
From Coq Require Import List Bool Arith.
Import ListNotations.
Set Implicit Arguments.

(* How the current gorilla message reader ends once its bytes are consumed:
   TEOF    - the message is complete: messageReader.Read returns (0, io.EOF)
   TClosed - the connection was lost / closed inside the message: gorilla returns errUnexpectedEOF,
             a *websocket.CloseError (code 1006)
   TOther  - any other error (protocol violation, deadline, ...) *)
Inductive tail := TEOF | TClosed | TOther.

(* Error classes of Conn.Read's result.
   ENone     - nil
   EClosed   - net.ErrClosed
   EOther    - any other error (incl. "unexpected message type")
   ERawClose - a raw *websocket.CloseError returned together with n > 0 (conn.go:194-201 returns the
               reader's error unmapped in that branch)
   EBlock    - not a result: the real call would block waiting for the peer (nothing to read yet) *)
Inductive rerr := ENone | EClosed | EOther | ERawClose | EBlock.

Section WsConn.
Variable A : Type.

(* What the peer put on the wire, at message granularity.
   Bin b        - a complete binary message (what Conn.Write sends, conn.go:217)
   BinCut b c   - a binary message of which only the bytes b arrive before the connection fails
                  (c = true: the transport is closed -> *CloseError 1006; c = false: some other error)
   Text b       - a complete non-binary data message
   CloseFrame   - a close control frame, or the transport closed between messages (both surface as a
                  *websocket.CloseError from NextReader); sticky
   Err          - any other NextReader failure; sticky (gorilla keeps returning Conn.readErr) *)
Inductive frame :=
| Bin (b : list A)
| BinCut (b : list A) (closed : bool)
| Text (b : list A)
| CloseFrame
| Err.

Record rres := mkRes { r_data : list A; r_err : rerr }.

(* Conn{wsConn, reader}: [cur] = Conn.reader (None = nil), [inbox] = what wsConn.NextReader will return *)
Record conn := mkConn { cur : option (list A * tail); inbox : list frame }.

Definition clamp (k lo hi : nat) : nat := Nat.max lo (Nat.min k hi).

(* one call c.reader.Read(b), len(b) = n, on a gorilla message reader with [rem] bytes left ending in [t].
   Oracle (k, e): the reader returns k bytes, 1 <= k <= min n |rem| (clamped into that range: gorilla and
   the socket may return fewer bytes than asked), and e says whether the terminal condition is reported
   together with the last bytes (io.Reader allows (n>0, err)) or by a following (0, err).
   Result: (bytes, Some t = error / None = nil, remaining) *)
Definition reader_read (rem : list A) (t : tail) (n k : nat) (e : bool)
  : list A * option tail * list A :=
  match rem with
  | [] => ([], Some t, [])
  | _ :: _ =>
      if Nat.eqb n 0 then ([], None, rem)
      else
        let k' := clamp k 1 (Nat.min n (length rem)) in
        let d := firstn k' rem in
        let rem' := skipn k' rem in
        match rem' with
        | [] => if e then (d, Some t, []) else (d, None, [])
        | _ :: _ => (d, None, rem')
        end
  end.

(* conn.go:193-212: the part of the loop body after c.reader is set.
   None = "0, io.EOF": c.reader = nil and go round the loop again. *)
Definition with_reader (rem : list A) (t : tail) (ib : list frame) (n k : nat) (e : bool)
  : option (conn * rres) :=
  match reader_read rem t n k e with
  | (d, err, rem') =>
      match d with
      | _ :: _ =>
          (* n > 0 (conn.go:194-202) *)
          match err with
          | None => Some (mkConn (Some (rem', t)) ib, mkRes d ENone)
          | Some TEOF => Some (mkConn None ib, mkRes d ENone)         (* reader reset, EOF -> nil *)
          | Some TClosed => Some (mkConn None ib, mkRes d ERawClose)  (* reader reset, error returned as is *)
          | Some TOther => Some (mkConn None ib, mkRes d EOther)
          end
      | [] =>
          match err with
          | None => Some (mkConn (Some (rem', t)) ib, mkRes [] ENone)      (* only for len(b) = 0 *)
          | Some TEOF => None                                              (* conn.go:211-212 *)
          | Some TClosed => Some (mkConn (Some (rem', t)) ib, mkRes [] EClosed)  (* conn.go:203-208 *)
          | Some TOther => Some (mkConn (Some (rem', t)) ib, mkRes [] EOther)
          end
      end
  end.

(* conn.go:178-191 + loop: c.reader == nil, fetch the next message. Structural in the inbox: every
   iteration of the Go loop that comes back here has consumed one (empty) binary message. *)
Fixpoint next_msg (ib : list frame) (n k : nat) (e : bool) : conn * rres :=
  match ib with
  | [] => (mkConn None [], mkRes [] EBlock)
  | Bin b :: rest =>
      match with_reader b TEOF rest n k e with
      | Some r => r
      | None => next_msg rest n k e
      end
  | BinCut b c :: rest =>
      (* after the failure gorilla's readErr is sticky: the head of the inbox becomes that error *)
      let ib' := (if c then CloseFrame else Err) :: rest in
      match with_reader b (if c then TClosed else TOther) ib' n k e with
      | Some r => r
      | None => (mkConn None ib', mkRes [] EBlock)   (* unreachable: the tail is not TEOF *)
      end
  | Text _ :: rest => (mkConn None rest, mkRes [] EOther)    (* conn.go:187-189; the next NextReader skips it *)
  | CloseFrame :: _ => (mkConn None ib, mkRes [] EClosed)    (* conn.go:181-184 *)
  | Err :: _ => (mkConn None ib, mkRes [] EOther)            (* conn.go:185 *)
  end.

(* Conn.Read(b) with len(b) = n — conn.go:176-214 *)
Definition read (c : conn) (n k : nat) (e : bool) : conn * rres :=
  match cur c with
  | Some (rem, t) =>
      match with_reader rem t (inbox c) n k e with
      | Some r => r
      | None => next_msg (inbox c) n k e
      end
  | None => next_msg (inbox c) n k e
  end.

(* the peer's Conn.Write(b): exactly one binary message per call — conn.go:216-225 *)
Definition write (c : conn) (b : list A) : conn := mkConn (cur c) (inbox c ++ [Bin b]).

(* the peer's Conn.Close() (gorilla closes the transport; the reader sees a *CloseError 1006),
   or a close control frame *)
Definition push_close (c : conn) : conn := mkConn (cur c) (inbox c ++ [CloseFrame]).

(* ghost: payload bytes sent and not yet returned by Read *)
Definition frame_bytes (f : frame) : list A :=
  match f with Bin b => b | BinCut b _ => b | _ => [] end.
Definition pend (c : conn) : list A :=
  match cur c with Some (rem, _) => rem | None => [] end ++ flat_map frame_bytes (inbox c).

(* a sequence of Read calls, each (len(buf), oracle k, oracle e) *)
Fixpoint run_reads (c : conn) (rs : list (nat * nat * bool)) : list rres * conn :=
  match rs with
  | [] => ([], c)
  | (n, k, e) :: rs' =>
      let (c', r) := read c n k e in
      let (outs, c'') := run_reads c' rs' in
      (r :: outs, c'')
  end.

End WsConn.

Arguments CloseFrame {A}. Arguments Err {A}.

(* renaming of payload bytes (used by the naturality lemma) *)
Section Map.
Variables (A B : Type) (f : A -> B).
Definition frame_map (x : frame A) : frame B :=
  match x with
  | Bin b => Bin (map f b) | BinCut b c => BinCut (map f b) c | Text b => Text (map f b)
  | CloseFrame => CloseFrame | Err => Err
  end.
Definition rres_map (r : rres A) : rres B := mkRes (map f (r_data r)) (r_err r).
Definition conn_map (c : conn A) : conn B :=
  mkConn (match cur c with Some (rem, t) => Some (map f rem, t) | None => None end)
         (map frame_map (inbox c)).
End Map.
