(* The two-goroutine copy pair joining two bidirectional connections X (downstream) and Y (upstream):

     TCPProxy.forward   /repo/server/proxy/tcpproxy.go:95-115
     Forwarder.forward  /repo/client/forwarder.go:82-130
     Server.forward     /repo/agent/tcpproxy/server.go:132-152
     forwardConn        /repo/forward/forwarder.go:66-112

     go func() { defer wg.Done(); defer Y.Close(); io.Copy(Y, X) }()      -- copier A
     go func() { defer wg.Done(); defer X.Close(); io.Copy(X, Y) }()      -- copier B
     wg.Wait()

   Small-step semantics: [step s a] is the state after action [a], None when [a] is not enabled in [s]
   (a Read with nothing to read and nothing closed blocks).  Environment actions are the remote peers of
   the two connections (sending bytes, closing) and a local Close() from outside the pair
   (agent/tcpproxy Server.Close, handler defers).

   Writes never block in this model (no flow-control stall): see ASSUMPTIONS in props/C07.py.
   No proofs in this file. *)
From Coq Require Import List Bool Arith.
From Piko Require Import Stream.WsConn.
Import ListNotations.
Set Implicit Arguments.

Inductive side := X | Y.

Section CopyPair.
Variable A : Type.

Record endp := mkEnd {
  e_in : list A;        (* sent by the remote peer, not yet read by the copier *)
  e_out : list A;       (* ghost: bytes written successfully to this connection, i.e. what the remote peer receives *)
  e_recv : list A;      (* ghost: every byte the remote peer ever sent *)
  e_rclosed : bool;     (* the remote peer closed: Read reports end of stream once e_in is drained *)
  e_lclosed : bool      (* Close() was called on our side: Read and Write fail immediately *)
}.

(* where a copier goroutine is *)
Inductive phase :=
| Reading                 (* in src.Read *)
| Writing (d : list A)    (* src.Read returned d, in dst.Write(d) *)
| Closing                 (* io.Copy returned, about to run the deferred dst.Close() *)
| Done.                   (* dst closed, wg.Done() *)

Record state := mkSt {
  cx : endp; cy : endp;
  ta : phase;             (* copier A: io.Copy(Y, X), then Y.Close() *)
  tb : phase              (* copier B: io.Copy(X, Y), then X.Close() *)
}.

Definition endp0 : endp := mkEnd [] [] [] false false.
Definition init : state := mkSt endp0 endp0 Reading Reading.

Inductive act :=
| ACopier (src : side) (k : nat) (wfail : bool)
    (* the copier reading from [src] makes its next move; k = how many bytes Read returns (clamped to
       1..available; io.Copy's 32 KiB buffer only restricts the choices further), wfail = a Write to a connection whose remote peer has gone fails now
       (it may also still succeed: the kernel accepts bytes until the reset arrives) *)
| AEnvWrite (c : side) (d : list A)     (* the remote peer of c sends d *)
| AEnvClose (c : side)                  (* the remote peer of c closes / disappears *)
| ALocalClose (c : side).               (* somebody outside the pair calls c.Close() *)

(* one move of a copier in phase [p] reading [src] and writing [dst] *)
Definition copier_step (p : phase) (src dst : endp) (k : nat) (wfail : bool)
  : option (phase * endp * endp) :=
  match p with
  | Reading =>
      if e_lclosed src then Some (Closing, src, dst)            (* use of closed connection *)
      else match e_in src with
           | _ :: _ =>
               let k' := clamp k 1 (length (e_in src)) in
               Some (Writing (firstn k' (e_in src)),
                     mkEnd (skipn k' (e_in src)) (e_out src) (e_recv src) (e_rclosed src) (e_lclosed src),
                     dst)
           | [] => if e_rclosed src then Some (Closing, src, dst)   (* EOF / net.ErrClosed *)
                   else None                                          (* blocks *)
           end
  | Writing d =>
      if e_lclosed dst then Some (Closing, src, dst)
      else if e_rclosed dst && wfail then Some (Closing, src, dst)
      else Some (Reading, src,
                 mkEnd (e_in dst) (e_out dst ++ d) (e_recv dst) (e_rclosed dst) (e_lclosed dst))
  | Closing =>
      Some (Done, src, mkEnd (e_in dst) (e_out dst) (e_recv dst) (e_rclosed dst) true)
  | Done => None
  end.

Definition get (s : state) (c : side) : endp := match c with X => cx s | Y => cy s end.
Definition set (s : state) (c : side) (e : endp) : state :=
  match c with X => mkSt e (cy s) (ta s) (tb s) | Y => mkSt (cx s) e (ta s) (tb s) end.

Definition step (s : state) (a : act) : option state :=
  match a with
  | ACopier X k wfail =>
      match copier_step (ta s) (cx s) (cy s) k wfail with
      | Some (p, x, y) => Some (mkSt x y p (tb s))
      | None => None
      end
  | ACopier Y k wfail =>
      match copier_step (tb s) (cy s) (cx s) k wfail with
      | Some (p, y, x) => Some (mkSt x y (ta s) p)
      | None => None
      end
  | AEnvWrite c d =>
      let e := get s c in
      match d with
      | [] => None
      | _ :: _ =>
          if e_rclosed e then None
          else Some (set s c (mkEnd (e_in e ++ d) (e_out e) (e_recv e ++ d) false (e_lclosed e)))
      end
  | AEnvClose c =>
      let e := get s c in
      if e_rclosed e then None
      else Some (set s c (mkEnd (e_in e) (e_out e) (e_recv e) true (e_lclosed e)))
  | ALocalClose c =>
      let e := get s c in
      Some (set s c (mkEnd (e_in e) (e_out e) (e_recv e) (e_rclosed e) true))
  end.

Fixpoint run (s : state) (acts : list act) : option state :=
  match acts with
  | [] => Some s
  | a :: rest => match step s a with Some s' => run s' rest | None => None end
  end.

Definition is_copier (a : act) : bool := match a with ACopier _ _ _ => true | _ => false end.
Definition is_close (a : act) : bool :=
  match a with AEnvClose _ => true | ALocalClose _ => true | _ => false end.

(* no copier can move *)
Definition stuck (s : state) : bool :=
  match step s (ACopier X 1 false), step s (ACopier Y 1 false) with
  | None, None => true
  | _, _ => false
  end.

Definition is_done (p : phase) : bool := match p with Done => true | _ => false end.

(* both goroutines finished (wg.Wait() returns) and both connections closed on our side *)
Definition final (s : state) : bool :=
  is_done (ta s) && is_done (tb s) && e_lclosed (cx s) && e_lclosed (cy s).

(* termination measure: 3 per byte still to be copied plus the distance of each goroutine from Done *)
Definition phase_weight (p : phase) : nat :=
  match p with Done => 0 | Closing => 1 | Reading => 2 | Writing _ => 3 end.
Definition measure (s : state) : nat :=
  3 * (length (e_in (cx s)) + length (e_in (cy s))) + phase_weight (ta s) + phase_weight (tb s).

(* bytes the environment sends during a run *)
Fixpoint env_bytes (acts : list act) : nat :=
  match acts with
  | [] => 0
  | AEnvWrite _ d :: rest => length d + env_bytes rest
  | _ :: rest => env_bytes rest
  end.

Definition count_copier (acts : list act) : nat := length (filter is_copier acts).

End CopyPair.

Arguments Reading {A}. Arguments Closing {A}. Arguments Done {A}.
Arguments ACopier {A}. Arguments AEnvClose {A}. Arguments ALocalClose {A}.
