(* One direction of a tunnelled connection: a chain of byte channels joined by copy stages.

     source --Write--> ch_0 --copier 0--> ch_1 --copier 1--> ... --> ch_k --Read--> sink

   Each channel is modelled by Stream/WsConn.v's [conn] (a websocket Conn; a TCP connection or a yamux
   stream is the special case where the receiver may also split "messages" arbitrarily, which the read
   oracle already allows).  A copier is one goroutine of the copy pairs
     TCPProxy.forward   /repo/server/proxy/tcpproxy.go:95-115
     Forwarder.forward  /repo/client/forwarder.go:82-130
     Server.forward     /repo/agent/tcpproxy/server.go:132-152
     forwardConn        /repo/forward/forwarder.go:66-112
   i.e. `defer dst.Close(); io.Copy(dst, src)`: repeat { nr, er := src.Read(buf); if nr > 0 { dst.Write(buf[:nr]) };
   if er != nil { break } } and then dst.Close().

   No proofs in this file. *)
From Coq Require Import List Bool Arith.
From Piko Require Import Stream.WsConn.
Import ListNotations.
Set Implicit Arguments.

Section Pipe.
Variable A : Type.

(* a channel and whether its writing side has called Close() *)
Record chan := mkChan { ch_conn : conn A; ch_closed : bool }.

Definition chan0 : chan := mkChan (mkConn None []) false.

(* Conn.Write on the sending side; a write after Close fails and sends nothing *)
Definition ch_write (c : chan) (b : list A) : chan :=
  if ch_closed c then c else mkChan (write (ch_conn c) b) false.

(* Conn.Close on the sending side (idempotent) *)
Definition ch_close (c : chan) : chan :=
  if ch_closed c then c else mkChan (push_close (ch_conn c)) true.

(* one iteration of io.Copy(dst, src) for the copier between [src] and [dst]; the copier has
   finished (and closed dst) iff ch_closed dst *)
Definition copy_step (src dst : chan) (n k : nat) (e : bool) : chan * chan :=
  if ch_closed dst then (src, dst)
  else
    let (c', r) := read (ch_conn src) n k e in
    match r_err r with
    | EBlock => (src, dst)                                        (* Read blocks: nothing happens *)
    | ENone =>
        (mkChan c' (ch_closed src),
         match r_data r with [] => dst | _ => ch_write dst (r_data r) end)
    | _ =>
        (* read error: write what came with it, leave the loop, deferred dst.Close() *)
        (mkChan c' (ch_closed src),
         ch_close (match r_data r with [] => dst | _ => ch_write dst (r_data r) end))
    end.

(* the copier between channel i and channel i+1 *)
Fixpoint copy_at (i : nat) (chs : list chan) (n k : nat) (e : bool) : list chan :=
  match i, chs with
  | O, src :: dst :: rest => let (s, d) := copy_step src dst n k e in s :: d :: rest
  | S i', c :: rest => c :: copy_at i' rest n k e
  | _, _ => chs
  end.

(* the sink reads from the last channel *)
Fixpoint read_last (chs : list chan) (n k : nat) (e : bool) : list chan * rres A :=
  match chs with
  | [] => ([], mkRes [] EBlock)
  | [c] => let (c', r) := read (ch_conn c) n k e in ([mkChan c' (ch_closed c)], r)
  | c :: rest => let (rest', r) := read_last rest n k e in (c :: rest', r)
  end.

Inductive pop :=
| PWrite (b : list A)                    (* the source writes b *)
| PClose                                 (* the source closes its end *)
| PCopy (i n k : nat) (e : bool)         (* copier i performs one loop iteration, buffer n, oracle (k, e) *)
| PRead (n k : nat) (e : bool).          (* the sink calls Read with a buffer of n bytes *)

(* ghost fields: everything the source wrote successfully, everything the sink got, and the results
   of the sink's Read calls (most recent first) *)
Record pstate := mkP { p_chs : list chan; p_written : list A; p_delivered : list A; p_outs : list (rres A) }.

Definition pinit (hops : nat) : pstate := mkP (repeat chan0 (S hops)) [] [] [].

Definition head_closed (chs : list chan) : bool :=
  match chs with c :: _ => ch_closed c | [] => true end.

Definition on_head (f : chan -> chan) (chs : list chan) : list chan :=
  match chs with c :: rest => f c :: rest | [] => [] end.

Definition pstep (s : pstate) (o : pop) : pstate :=
  match o with
  | PWrite b =>
      if head_closed (p_chs s) then s
      else mkP (on_head (fun c => ch_write c b) (p_chs s)) (p_written s ++ b) (p_delivered s) (p_outs s)
  | PClose => mkP (on_head ch_close (p_chs s)) (p_written s) (p_delivered s) (p_outs s)
  | PCopy i n k e => mkP (copy_at i (p_chs s) n k e) (p_written s) (p_delivered s) (p_outs s)
  | PRead n k e =>
      let (chs', r) := read_last (p_chs s) n k e in
      match r_err r with
      | EBlock => s
      | _ => mkP chs' (p_written s) (p_delivered s ++ r_data r) (r :: p_outs s)
      end
  end.

Definition prun (s : pstate) (ops : list pop) : pstate := fold_left pstep ops s.

(* bytes in flight, nearest to the sink first *)
Fixpoint pend_all (chs : list chan) : list A :=
  match chs with
  | [] => []
  | c :: rest => pend_all rest ++ pend (ch_conn c)
  end.

End Pipe.

Arguments PClose {A}. Arguments PCopy {A}. Arguments PRead {A}.
