(* A VARIANT of the copy pair (Stream/CopyPair.v) in which the copier that forwards the client's bytes, when its copy ends,
   only shuts down the WRITING side of the destination connection instead of closing it (seeded change C07-11:
   agent/tcpproxy forward() calling CloseWrite on the service connection "to let the service flush its response").
   Only the step that runs the deferred close differs: the destination is marked half-closed - the service sees
   end-of-stream, but reads from it by the other copier are still possible and it is NOT closed locally.
   Model only; the refutation is in StreamP/HalfCloseP.v. *)
From Coq Require Import List Bool Arith.
From Piko Require Import Stream.WsConn Stream.CopyPair.
Import ListNotations.
Set Implicit Arguments.

Section HalfClose.
Variable A : Type.

(* copier A (reads X, writes Y) half-closes Y; copier B (reads Y, writes X) still closes X *)
Definition copier_step_hc (half : bool) (p : phase A) (src dst : endp A) (k : nat) (wfail : bool)
  : option (phase A * endp A * endp A) :=
  match p with
  | Closing => if half then Some (Done, src, dst)      (* CloseWrite(dst): nothing that the pair's other copier can observe *)
               else copier_step p src dst k wfail
  | _ => copier_step p src dst k wfail
  end.

Definition step_hc (s : state A) (a : act A) : option (state A) :=
  match a with
  | ACopier X k wfail =>
      match copier_step_hc true (ta s) (cx s) (cy s) k wfail with
      | Some (p, x, y) => Some (mkSt x y p (tb s))
      | None => None
      end
  | ACopier Y k wfail =>
      match copier_step_hc false (tb s) (cy s) (cx s) k wfail with
      | Some (p, y, x) => Some (mkSt x y (ta s) p)
      | None => None
      end
  | _ => step s a
  end.

Fixpoint run_hc (s : state A) (acts : list (act A)) : option (state A) :=
  match acts with
  | [] => Some s
  | a :: rest => match step_hc s a with Some s' => run_hc s' rest | None => None end
  end.

Definition stuck_hc (s : state A) : bool :=
  match step_hc s (ACopier X 1 false), step_hc s (ACopier Y 1 false) with
  | None, None => true
  | _, _ => false
  end.

End HalfClose.
