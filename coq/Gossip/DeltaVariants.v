(* VARIANTS of deltaEntry (Gossip/Apply.v delta_entry_of) written by authors of seeded changes; refuted in
   GossipP/DeltaVariantsP.v.
     capped  - "bound the work under the mutex": at most n entries are taken while ranging over the entries map (Go map
               order: here the order of the association list, any order is possible), THEN sorted by version
               (C03-12 with 256, C13-12 with 1024);
     marker_first - "a leaving node should not be held up by truncation": internal entries (left / compaction marker) are
               sorted ahead of regular keys (C17-12). *)
From Coq Require Import List String NArith Bool.
From Piko Require Import Base.Maps Base.Strs Gossip.Types Gossip.Apply.
Import ListNotations.
Local Open Scope N_scope.

Definition delta_entry_capped (n : nat) (s : node_state) (from : N) : delta_entry :=
  {| de_id := n_id s; de_addr := n_addr s;
     de_ents := sort_by_ver (firstn n (filter (fun e => from <? e_ver e) (values (n_ents s)))) |}.

Definition delta_entry_marker_first (s : node_state) (from : N) : delta_entry :=
  let l := sort_by_ver (filter (fun e => from <? e_ver e) (values (n_ents s))) in
  {| de_id := n_id s; de_addr := n_addr s; de_ents := filter e_int l ++ filter (fun e => negb (e_int e)) l |}.
