(* Types of the gossip model: mirrors pkg/gossip/state.go Entry / NodeMetadata / nodeState / digest / delta *)
From Coq Require Import List String NArith ZArith Bool.
From Piko Require Import Base.Maps Base.Strs.
Import ListNotations.
Open Scope string_scope. Open Scope list_scope. Open Scope N_scope.

Definition leftKey := "_internal:left".
Definition compactKey := "_internal:compact".
Definition nodeExpiry : Z := 60 * 1000000000.

Record entry := { e_key : string; e_val : string; e_ver : N; e_int : bool; e_del : bool }.

Record node_state := { n_id : string; n_addr : string; n_ver : N; n_left : bool; n_unreach : bool;
                       n_expiry : option Z; n_ents : amap entry }.

Inductive event :=
| EJoin (n : string) | ELeave (n : string) | EReach (n : string) | EUnreach (n : string)
| EUpsert (n k v : string) | EDelete (n k : string) | EExpired (n : string).

Record dig_entry := { d_id : string; d_addr : string; d_ver : N; d_left : bool }.
Record delta_entry := { de_id : string; de_addr : string; de_ents : list entry }.

Definition set_ents (s : node_state) (m : amap entry) (v : N) : node_state :=
  {| n_id := n_id s; n_addr := n_addr s; n_ver := v; n_left := n_left s; n_unreach := n_unreach s;
     n_expiry := n_expiry s; n_ents := m |}.

Definition new_node (id addr : string) : node_state :=
  {| n_id := id; n_addr := addr; n_ver := 0; n_left := false; n_unreach := false; n_expiry := None; n_ents := [] |}.

Definition mk_entry (k v : string) (ver : N) (i d : bool) : entry :=
  {| e_key := k; e_val := v; e_ver := ver; e_int := i; e_del := d |}.

Definition entry_eqb (a b : entry) : bool :=
  String.eqb (e_key a) (e_key b) && String.eqb (e_val a) (e_val b) && N.eqb (e_ver a) (e_ver b)
  && Bool.eqb (e_int a) (e_int b) && Bool.eqb (e_del a) (e_del b).

Lemma entry_eqb_eq a b : entry_eqb a b = true <-> a = b.
Proof.
  unfold entry_eqb. destruct a, b; cbn. rewrite !andb_true_iff, !String.eqb_eq, N.eqb_eq, !Bool.eqb_true_iff.
  split; [intros [[[[-> ->] ->] ->] ->]; reflexivity|intros [= -> -> -> -> ->]; tauto].
Qed.

(* version-sorted insertion sort: sort.Slice by Version on distinct versions is deterministic *)
Fixpoint ins_by_ver (e : entry) (l : list entry) : list entry :=
  match l with [] => [e] | x :: l' => if e_ver e <=? e_ver x then e :: l else x :: ins_by_ver e l' end.
Definition sort_by_ver (l : list entry) : list entry := fold_right ins_by_ver [] l.
