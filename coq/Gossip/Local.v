(* Owner-side operations: clusterState.UpsertLocal / DeleteLocal / LeaveLocal / CompactLocal
   (pkg/gossip/state.go:230-374). Models only; proofs live in GossipP/. *)
From Coq Require Import List String NArith ZArith Bool.
From Piko Require Import Base.Maps Base.Strs Gossip.Types.
Import ListNotations.
Open Scope string_scope. Open Scope list_scope. Open Scope N_scope.

Definition upsert_local (k v : string) (s : node_state) : node_state :=
  let fresh := let ver := n_ver s + 1 in set_ents s (insert k (mk_entry k v ver false false) (n_ents s)) ver in
  match lookup k (n_ents s) with
  | Some ex => if String.eqb (e_val ex) v && negb (e_del ex) then s else fresh
  | None => fresh
  end.

Definition delete_local (k : string) (s : node_state) : node_state :=
  match lookup k (n_ents s) with
  | Some ex => if e_del ex then s else
      let ver := n_ver s + 1 in
      set_ents s (insert k (mk_entry (e_key ex) "" ver (e_int ex) true) (n_ents s)) ver
  | None => s
  end.

Definition leave_local (s : node_state) : node_state :=
  if n_left s then s else
  let ver := n_ver s + 1 in
  {| n_id := n_id s; n_addr := n_addr s; n_ver := ver; n_left := true; n_unreach := n_unreach s;
     n_expiry := n_expiry s; n_ents := insert leftKey (mk_entry leftKey "" ver true false) (n_ents s) |}.

Definition is_marker (e : entry) : bool := e_int e && String.eqb (e_key e) compactKey.

(* re-version the kept entries in version order, starting above the current version *)
Definition reversion (keep : list entry) (v0 : N) : amap entry * N :=
  fold_left (fun '(m, ver) e =>
               let ver' := ver + 1 in
               (insert (e_key e) (mk_entry (e_key e) (e_val e) ver' (e_int e) (e_del e)) m, ver'))
            keep ([], v0).

Definition compact_local (threshold : N) (s : node_state) : node_state :=
  let ents := sort_by_ver (values (n_ents s)) in
  if N.of_nat (List.length (filter e_del ents)) <? threshold then s else
  match rev ents with
  | [] => s            (* the real code panics here (index -1); unreachable when threshold >= 1 *)
  | top :: _ =>
      let cv := e_ver top in
      let keep := filter (fun e => negb (e_del e) && negb (is_marker e)) ents in
      let '(m, ver) := reversion keep (n_ver s) in
      let ver' := ver + 1 in
      set_ents s (insert compactKey (mk_entry compactKey (format_uint cv) ver' true false) m) ver'
  end.

Inductive lop := LUpsert (k v : string) | LDelete (k : string) | LCompact (th : N) | LLeave.

Definition local_step (s : node_state) (o : lop) : node_state :=
  match o with
  | LUpsert k v => upsert_local k v s
  | LDelete k => delete_local k s
  | LCompact th => compact_local th s
  | LLeave => leave_local s
  end.

Definition local_run (s : node_state) (ops : list lop) : node_state := fold_left local_step ops s.

(* canonical dump used by the correspondence check: entries sorted by version *)
Definition dump_entries (s : node_state) : list entry := sort_by_ver (values (n_ents s)).
