(* A decoder for the canonical wire format of Gossip/Codec.v (what decodeDigest / decodeDelta make of packets
   the encoder produced): used to state the round-trip theorem of C13. Model only. *)
From Coq Require Import List String Ascii NArith ZArith Bool.
From Piko Require Import Base.Maps Base.Strs Gossip.Types Gossip.Codec.
Import ListNotations.
Open Scope string_scope. Open Scope list_scope. Open Scope N_scope.

(* big-endian number from the first k bytes *)
Fixpoint unbe (k : nat) (b : bytes) (acc : N) : option (N * bytes) :=
  match k with
  | O => Some (acc, b)
  | S k' => match b with [] => None | x :: r => unbe k' r (acc * 256 + x) end
  end.

Definition dec_uint (b : bytes) : option (N * bytes) :=
  match b with
  | [] => None
  | t :: r =>
      if t <=? 127 then Some (t, r)
      else if t =? 204 then unbe 1 r 0
      else if t =? 205 then unbe 2 r 0
      else if t =? 206 then unbe 4 r 0
      else if t =? 207 then unbe 8 r 0
      else None
  end.

Definition dec_int (b : bytes) : option (N * bytes) :=
  match b with
  | [] => None
  | t :: r =>
      if t <=? 127 then Some (t, r)
      else if t =? 209 then unbe 2 r 0
      else if t =? 210 then unbe 4 r 0
      else if t =? 211 then unbe 8 r 0
      else None
  end.

Definition dec_bool (b : bytes) : option (bool * bytes) :=
  match b with
  | 195 :: r => Some (true, r)
  | 194 :: r => Some (false, r)
  | _ => None
  end.

Fixpoint take_bytes (n : nat) (b : bytes) : option (bytes * bytes) :=
  match n with
  | O => Some ([], b)
  | S n' => match b with [] => None | x :: r => match take_bytes n' r with Some (hd, tl) => Some (x :: hd, tl) | None => None end end
  end.

Definition dec_str (b : bytes) : option (string * bytes) :=
  match b with
  | [] => None
  | t :: r =>
      let get (len : N) (r : bytes) :=
        match take_bytes (N.to_nat len) r with Some (hd, rest) => Some (string_of_bytes hd, rest) | None => None end in
      if (160 <=? t) && (t <=? 191) then get (t - 160) r
      else if t =? 218 then match unbe 2 r 0 with Some (len, r') => get len r' | None => None end
      else if t =? 219 then match unbe 4 r 0 with Some (len, r') => get len r' | None => None end
      else None
  end.

(* expect a literal byte sequence *)
Fixpoint expect (lit b : bytes) : option bytes :=
  match lit with
  | [] => Some b
  | x :: l => match b with y :: r => if x =? y then expect l r else None | [] => None end
  end.

Definition dec_entry (b : bytes) : option (entry * bytes) :=
  match expect (enc_maphdr 5 ++ enc_str "key") b with None => None | Some b1 =>
  match dec_str b1 with None => None | Some (k, b2) =>
  match expect (enc_str "value") b2 with None => None | Some b3 =>
  match dec_str b3 with None => None | Some (v, b4) =>
  match expect (enc_str "version") b4 with None => None | Some b5 =>
  match dec_uint b5 with None => None | Some (ver, b6) =>
  match expect (enc_str "internal") b6 with None => None | Some b7 =>
  match dec_bool b7 with None => None | Some (i, b8) =>
  match expect (enc_str "deleted") b8 with None => None | Some b9 =>
  match dec_bool b9 with None => None | Some (d, b10) =>
  Some (mk_entry k v ver i d, b10) end end end end end end end end end end.

Definition dec_dig_entry (b : bytes) : option (dig_entry * bytes) :=
  match expect (enc_maphdr 4 ++ enc_str "id") b with None => None | Some b1 =>
  match dec_str b1 with None => None | Some (id, b2) =>
  match expect (enc_str "addr") b2 with None => None | Some b3 =>
  match dec_str b3 with None => None | Some (addr, b4) =>
  match expect (enc_str "version") b4 with None => None | Some b5 =>
  match dec_uint b5 with None => None | Some (ver, b6) =>
  match expect (enc_str "left") b6 with None => None | Some b7 =>
  match dec_bool b7 with None => None | Some (l, b8) =>
  Some ({| d_id := id; d_addr := addr; d_ver := ver; d_left := l |}, b8) end end end end end end end end.

Definition dec_digest_header (b : bytes) : option (string * string * bool * bytes) :=
  match expect (enc_maphdr 3 ++ enc_str "node_id") b with None => None | Some b1 =>
  match dec_str b1 with None => None | Some (id, b2) =>
  match expect (enc_str "addr") b2 with None => None | Some b3 =>
  match dec_str b3 with None => None | Some (addr, b4) =>
  match expect (enc_str "request") b4 with None => None | Some b5 =>
  match dec_bool b5 with None => None | Some (rq, b6) => Some (id, addr, rq, b6) end end end end end end.

Definition dec_delta_header (b : bytes) : option (string * string * N * bytes) :=
  match expect (enc_maphdr 3 ++ enc_str "node_id") b with None => None | Some b1 =>
  match dec_str b1 with None => None | Some (id, b2) =>
  match expect (enc_str "addr") b2 with None => None | Some b3 =>
  match dec_str b3 with None => None | Some (addr, b4) =>
  match expect (enc_str "entries") b4 with None => None | Some b5 =>
  match dec_int b5 with None => None | Some (n, b6) => Some (id, addr, n, b6) end end end end end end.

(* "Read digest entries until EOF" *)
Fixpoint dec_dig_entries (fuel : nat) (b : bytes) : option (list dig_entry) :=
  match b with
  | [] => Some []
  | _ => match fuel with
         | O => None
         | S f => match dec_dig_entry b with
                  | Some (d, r) => match dec_dig_entries f r with Some l => Some (d :: l) | None => None end
                  | None => None end
         end
  end.

Definition decode_digest (b : bytes) : option (string * string * bool * list dig_entry) :=
  match expect [1; 0] b with None => None | Some b1 =>
  match dec_digest_header b1 with None => None | Some (id, addr, rq, b2) =>
  match dec_dig_entries (List.length b2) b2 with Some l => Some (id, addr, rq, l) | None => None end end end.

(* "Read entries until we hit the number of entries from the header or EOF" *)
Fixpoint dec_entries (n : nat) (b : bytes) : option (list entry * bytes) :=
  match n with
  | O => Some ([], b)
  | S n' => match b with
            | [] => Some ([], [])
            | _ => match dec_entry b with
                   | Some (e, r) => match dec_entries n' r with Some (l, r') => Some (e :: l, r') | None => None end
                   | None => None end
            end
  end.

Fixpoint dec_parts (fuel : nat) (b : bytes) : option (list delta_part) :=
  match b with
  | [] => Some []
  | _ => match fuel with
         | O => None
         | S f => match dec_delta_header b with
                  | None => None
                  | Some (id, addr, n, r) =>
                      match dec_entries (N.to_nat n) r with
                      | None => None
                      | Some (es, r') =>
                          match dec_parts f r' with
                          | Some ps => Some ({| dp_id := id; dp_addr := addr; dp_count := n; dp_ents := es |} :: ps)
                          | None => None end
                      end
                  end
         end
  end.

Definition decode_delta (b : bytes) : option (string * string * list delta_part) :=
  match expect [2; 0] b with None => None | Some b1 =>
  match dec_delta_header b1 with None => None | Some (id, addr, _, b2) =>
  match dec_parts (List.length b2) b2 with Some ps => Some (id, addr, ps) | None => None end end end.
