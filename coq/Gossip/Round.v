(* Who a node talks to: peer selection of a gossip round (pkg/gossip/gossip.go gossipRound over state.go LiveNodes /
   UnreachableNodes) and the peers a departing node notifies (gossip.go Leave over state.go Nodes). Models only; proofs in
   GossipP/RoundP.v.

   Go's randomness is an oracle: `nodes[rand.Int()%len(nodes)]` over a slice filled in map-iteration order is modelled
   as an index r into the list in SOME order (the theorems hold for every order and every r); rand.Shuffle in Leave is
   modelled as the order in which the known nodes are visited (any permutation). *)
From Coq Require Import List String NArith Bool.
From Piko Require Import Base.Maps Base.Strs Gossip.Types Gossip.Apply.
Import ListNotations.
Open Scope string_scope. Open Scope list_scope.

(* state.go:196-211 LiveNodes: every known node that is not the local one, not unreachable and has not left *)
Definition is_live_peer (local : string) (s : node_state) : bool :=
  negb (String.eqb (n_id s) local) && negb (n_unreach s || n_left s).
Definition live_peers (c : cstate) : list node_state := filter (is_live_peer (c_local c)) (values (c_nodes c)).

(* state.go:215-229 UnreachableNodes: every known node that is not the local one and is unreachable (left or not) *)
Definition is_unreach_peer (local : string) (s : node_state) : bool :=
  negb (String.eqb (n_id s) local) && n_unreach s.
Definition unreach_peers (c : cstate) : list node_state := filter (is_unreach_peer (c_local c)) (values (c_nodes c)).

(* nodes[rand.Int() % len(nodes)] *)
Definition pick {A} (l : list A) (r : nat) : option A :=
  match l with [] => None | _ => nth_error l (Nat.modulo r (List.length l)) end.

(* gossip.go:320-345 gossipRound, with the two slices in the order Go produced them and the two random numbers: the
   digests go to one live peer (if any) and to one unreachable peer (if any). [a failing send to the first ends the round:
   not modelled, the packet conn of a running node does not fail] *)
Definition round_targets (lives unreach : list node_state) (r1 r2 : nat) : list node_state :=
  (match pick lives r1 with Some n => [n] | None => [] end) ++
  (match pick unreach r2 with Some n => [n] | None => [] end).

(* what the harness can observe of a round is the list of destination ADDRESSES; legal = one address of a live peer (when
   there is one) followed by one address of an unreachable peer (when there is one) *)
Definition mem_str (a : string) (l : list string) : bool := existsb (String.eqb a) l.

Definition round_legal (c : cstate) (dsts : list string) : bool :=
  let L := map n_addr (live_peers c) in
  let U := map n_addr (unreach_peers c) in
  match L, U, dsts with
  | [], [], [] => true
  | _ :: _, [], [a] => mem_str a L
  | [], _ :: _, [u] => mem_str u U
  | _ :: _, _ :: _, [a; u] => mem_str a L && mem_str u U
  | _, _, _ => false
  end.

(* ---- Leave (gossip.go:194-247): after LeaveLocal the known nodes are visited in shuffled order; the local node, nodes
   that left and unreachable nodes are skipped; each other node is sent the leave stream; the loop stops after the 4th
   acknowledgement (`notified > 3`). `ack id` = the stream to that node was acknowledged. Returns the nodes that
   acknowledged, the nodes that were tried, and whether Leave returns an error (nobody notified and some attempt failed). *)
Definition leave_candidate (local : string) (s : node_state) : bool :=
  negb (String.eqb (n_id s) local) && negb (n_left s || n_unreach s).

Fixpoint leave_loop (local : string) (ack : string -> bool) (order : list node_state) (notified : nat)
         (told tried : list string) (failed : bool) : list string * list string * bool :=
  match order with
  | [] => (told, tried, (Nat.eqb notified 0) && failed)
  | s :: r =>
      if leave_candidate local s then
        if ack (n_id s) then
          if (Nat.ltb 3 (S notified)) then (told ++ [n_id s], tried ++ [n_id s], false)
          else leave_loop local ack r (S notified) (told ++ [n_id s]) (tried ++ [n_id s]) failed
        else leave_loop local ack r notified told (tried ++ [n_id s]) true
      else leave_loop local ack r notified told tried failed
  end.

Definition leave_run (c : cstate) (ack : string -> bool) (order : list node_state) : list string * list string * bool :=
  leave_loop (c_local c) ack order 0 [] [] false.

(* what the harness observes of a Leave: the set of nodes that were told (they hold the leaver as left afterwards) and
   whether Leave returned an error. Legal: every told node is a candidate whose stream is acknowledged; if four or fewer
   candidates acknowledge, all of them were told, otherwise exactly four; error iff nobody was told and some candidate
   does not acknowledge *)
Definition ack_cands (c : cstate) (ack : string -> bool) : list string :=
  map n_id (filter (fun s => leave_candidate (c_local c) s && ack (n_id s)) (values (c_nodes c))).
Definition nack_cands (c : cstate) (ack : string -> bool) : list string :=
  map n_id (filter (fun s => leave_candidate (c_local c) s && negb (ack (n_id s))) (values (c_nodes c))).

Fixpoint nodup_str (l : list string) : bool :=
  match l with [] => true | x :: r => negb (mem_str x r) && nodup_str r end.

Definition leave_legal (c : cstate) (ack : string -> bool) (told : list string) (err : bool) : bool :=
  let A := ack_cands c ack in
  nodup_str told && forallb (fun x => mem_str x A) told
  && (if (Nat.leb (List.length A) 4) then (Nat.eqb (List.length told) (List.length A)) else (Nat.eqb (List.length told) 4))
  && Bool.eqb err (match A, nack_cands c ack with [], _ :: _ => true | _, _ => false end).
