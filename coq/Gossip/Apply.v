(* Receiver-side gossip state: Digest / Delta / deltaEntry / ApplyDigest / ApplyDelta / applyDeltaEntry /
   UpdateLiveness / RemoveExpiredAt  (pkg/gossip/state.go:376-627). Models only. *)
From Coq Require Import List String NArith ZArith Bool.
From Piko Require Import Base.Maps Base.Strs Gossip.Types.
Import ListNotations.
Open Scope string_scope. Open Scope list_scope. Open Scope N_scope.

Record cstate := { c_local : string; c_nodes : amap node_state }.

Definition new_cstate (id addr : string) : cstate :=
  {| c_local := id; c_nodes := [(id, new_node id addr)] |}.

Definition set_nodes (c : cstate) (m : amap node_state) : cstate := {| c_local := c_local c; c_nodes := m |}.

Definition local_node (c : cstate) : option node_state := lookup (c_local c) (c_nodes c).

Definition dig_of_node (s : node_state) : dig_entry :=
  {| d_id := n_id s; d_addr := n_addr s; d_ver := n_ver s; d_left := n_left s |}.

(* Digest(): one entry per known node (Go map order; the model's order is the assoc-list order) *)
Definition digest_of (c : cstate) : list dig_entry := map dig_of_node (values (c_nodes c)).

(* deltaEntry(nodeID, fromVersion) *)
Definition delta_entry_of (s : node_state) (from : N) : delta_entry :=
  {| de_id := n_id s; de_addr := n_addr s;
     de_ents := sort_by_ver (filter (fun e => from <? e_ver e) (values (n_ents s))) |}.

(* Delta(digest, false): nodes in digest order, members with nothing newer are omitted *)
Definition delta_for (c : cstate) (dg : list dig_entry) : list delta_entry :=
  flat_map (fun d => match lookup (d_id d) (c_nodes c) with
                     | None => []
                     | Some s => let de := delta_entry_of s (d_ver d) in
                                 match de_ents de with [] => [] | _ => [de] end
                     end) dg.

(* the fullDigest tail of Delta(digest, true): every known node absent from the digest, from version 0,
   in the (map iteration) order given by the oracle [order] *)
Definition digest_has (dg : list dig_entry) (id : string) : bool := existsb (fun d => String.eqb (d_id d) id) dg.

Definition delta_extras (c : cstate) (order : list string) : list delta_entry :=
  flat_map (fun id => match lookup id (c_nodes c) with
                      | Some s => [delta_entry_of s 0] | None => [] end) order.

Definition extras_ids (c : cstate) (dg : list dig_entry) : list string :=
  filter (fun id => negb (digest_has dg id)) (keys (c_nodes c)).

(* ApplyDigest *)
Definition dig_step (acc : cstate * list event) (d : dig_entry) : cstate * list event :=
  let '(c, ev) := acc in
  if mem (d_id d) (c_nodes c) then (c, ev)
  else if d_left d then (c, ev)
  else (set_nodes c (insert (d_id d) (new_node (d_id d) (d_addr d)) (c_nodes c)), ev ++ [EJoin (d_id d)]).

Definition apply_digest (c : cstate) (dg : list dig_entry) : cstate * list event :=
  fold_left dig_step dg (c, []).

Definition set_left (s : node_state) (exp : Z) : node_state :=
  {| n_id := n_id s; n_addr := n_addr s; n_ver := n_ver s; n_left := true; n_unreach := n_unreach s;
     n_expiry := Some exp; n_ents := n_ents s |}.

(* one entry of a delta applied to a remote node's state.
   Result: new state, events, and whether applyDeltaEntry returned early (unparsable marker value). *)
Definition apply_entry (now : Z) (nid : string) (st : node_state) (e : entry) : node_state * list event * bool :=
  if e_ver e <=? n_ver st then (st, [], false) else
  let st1 := set_ents st (insert (e_key e) e (n_ents st)) (e_ver e) in
  if e_int e then
    if String.eqb (e_key e) leftKey then (set_left st1 (now + nodeExpiry)%Z, [ELeave nid], false)
    else if String.eqb (e_key e) compactKey then
      match parse_uint (e_val e) with
      | None => (st1, [], true)
      | Some c =>
          let dropped := mfilter (fun x => e_ver x <=? c) (n_ents st1) in
          (set_ents st1 (mfilter (fun x => c <? e_ver x) (n_ents st1)) (n_ver st1),
           map (fun x => EDelete nid (e_key x)) (filter (fun x => negb (e_del x)) (values dropped)), false)
      end
    else (st1, [], false)
  else (st1, [if e_del e then EDelete nid (e_key e) else EUpsert nid (e_key e) (e_val e)], false).

Fixpoint apply_entries (now : Z) (nid : string) (st : node_state) (es : list entry) : node_state * list event :=
  match es with
  | [] => (st, [])
  | e :: es' =>
      let '(st', ev, stop) := apply_entry now nid st e in
      if stop then (st', ev) else
      let '(st'', ev') := apply_entries now nid st' es' in (st'', ev ++ ev')
  end.

Definition now_of (nows : amap Z) (id : string) : Z := match lookup id nows with Some t => t | None => 0%Z end.

(* applyDeltaEntry *)
Definition apply_delta_entry (nows : amap Z) (c : cstate) (de : delta_entry) : cstate * list event :=
  if String.eqb (de_id de) (c_local c) then (c, []) else
  let '(st, evj) := match lookup (de_id de) (c_nodes c) with
                    | Some st => (st, [])
                    | None => (new_node (de_id de) (de_addr de), [EJoin (de_id de)]) end in
  let '(st', ev) := apply_entries (now_of nows (de_id de)) (de_id de) st (de_ents de) in
  (set_nodes c (insert (de_id de) st' (c_nodes c)), evj ++ ev).

Definition delta_step (nows : amap Z) (acc : cstate * list event) (de : delta_entry) : cstate * list event :=
  let '(c, ev) := acc in let '(c', ev') := apply_delta_entry nows c de in (c', ev ++ ev').

Definition apply_delta (nows : amap Z) (c : cstate) (dl : list delta_entry) : cstate * list event :=
  fold_left (delta_step nows) dl (c, []).

(* UpdateLiveness: [suspect id] says whether the detector's level for id exceeds the threshold *)
Definition set_unreach (s : node_state) (u : bool) (exp : option Z) : node_state :=
  {| n_id := n_id s; n_addr := n_addr s; n_ver := n_ver s; n_left := n_left s; n_unreach := u;
     n_expiry := exp; n_ents := n_ents s |}.

Definition liveness_node (local : string) (suspect : string -> bool) (nows : amap Z) (s : node_state)
  : node_state * list event :=
  if String.eqb (n_id s) local || n_left s then (s, []) else
  if suspect (n_id s) then
    if n_unreach s then (s, []) else (set_unreach s true (Some (now_of nows (n_id s) + nodeExpiry)%Z), [EUnreach (n_id s)])
  else
    if n_unreach s then (set_unreach s false None, [EReach (n_id s)]) else (s, []).

Definition update_liveness (suspect : string -> bool) (nows : amap Z) (c : cstate) : cstate * list event :=
  let r := map (fun kv => let '(s', ev) := liveness_node (c_local c) suspect nows (snd kv) in ((fst kv, s'), ev)) (c_nodes c) in
  (set_nodes c (map fst r), flat_map snd r).

(* RemoveExpiredAt(t): t.After(expiry), expiry non-zero *)
Definition expired (t : Z) (s : node_state) : bool :=
  match n_expiry s with Some e => (e <? t)%Z | None => false end.

Definition remove_expired (t : Z) (c : cstate) : cstate * list event :=
  (set_nodes c (mfilter (fun s => negb (expired t s)) (c_nodes c)),
   map (fun s => EExpired (n_id s)) (filter (expired t) (values (c_nodes c)))).

Definition live_nodes (c : cstate) : list node_state :=
  filter (fun s => negb (String.eqb (n_id s) (c_local c)) && negb (n_unreach s) && negb (n_left s)) (values (c_nodes c)).
