(* Byte-exact model of the gossip wire encoding (pkg/gossip/protocol.go + ugorji/go/codec msgpack handle
   with default options: legacy raw strings, structs as maps with field names in declaration order),
   including the bufLen truncation loops of encodeDigest / encodeDelta / Gossip.gossip. Models only. *)
From Coq Require Import List String Ascii NArith ZArith Bool.
From Piko Require Import Base.Maps Base.Strs Gossip.Types.
Import ListNotations.
Open Scope string_scope. Open Scope list_scope. Open Scope N_scope.

Definition bytes := list N.

(* big-endian, [k] bytes *)
Fixpoint be (k : nat) (n : N) : bytes :=
  match k with O => [] | S k' => (n / 256 ^ N.of_nat k') mod 256 :: be k' n end.

Definition enc_uint (n : N) : bytes :=
  if n <=? 127 then [n]
  else if n <=? 255 then [204; n]
  else if n <=? 65535 then 205 :: be 2 n
  else if n <=? 4294967295 then 206 :: be 4 n
  else 207 :: be 8 n.

(* a non-negative Go int through EncodeInt (PositiveIntUnsigned is off) *)
Definition enc_int (n : N) : bytes :=
  if n <=? 127 then [n]
  else if n <=? 32767 then 209 :: be 2 n
  else if n <=? 2147483647 then 210 :: be 4 n
  else 211 :: be 8 n.

Definition enc_bool (b : bool) : bytes := [if b then 195 else 194].

Definition enc_str (s : string) : bytes :=
  let l := N.of_nat (String.length s) in
  (if l <? 32 then [160 + l] else if l <? 65536 then 218 :: be 2 l else 219 :: be 4 l) ++ bytes_of_string s.

Definition enc_maphdr (n : N) : bytes := [128 + n].

Definition enc_entry (e : entry) : bytes :=
  enc_maphdr 5 ++ enc_str "key" ++ enc_str (e_key e) ++ enc_str "value" ++ enc_str (e_val e)
  ++ enc_str "version" ++ enc_uint (e_ver e) ++ enc_str "internal" ++ enc_bool (e_int e)
  ++ enc_str "deleted" ++ enc_bool (e_del e).

Definition enc_dig_entry (d : dig_entry) : bytes :=
  enc_maphdr 4 ++ enc_str "id" ++ enc_str (d_id d) ++ enc_str "addr" ++ enc_str (d_addr d)
  ++ enc_str "version" ++ enc_uint (d_ver d) ++ enc_str "left" ++ enc_bool (d_left d).

Definition enc_digest_header (id addr : string) (req : bool) : bytes :=
  enc_maphdr 3 ++ enc_str "node_id" ++ enc_str id ++ enc_str "addr" ++ enc_str addr
  ++ enc_str "request" ++ enc_bool req.

Definition enc_delta_header (id addr : string) (n : N) : bytes :=
  enc_maphdr 3 ++ enc_str "node_id" ++ enc_str id ++ enc_str "addr" ++ enc_str addr
  ++ enc_str "entries" ++ enc_int n.

Definition blen (b : bytes) : N := N.of_nat (List.length b).

(* the longest prefix of [items] whose cumulative encoding, after [used] bytes, stays within [max];
   stops at the first item that does not fit (the real loop breaks there) *)
Fixpoint take_fit {A} (enc : A -> bytes) (max used : N) (items : list A) : list A * N :=
  match items with
  | [] => ([], used)
  | x :: r =>
      let used' := used + blen (enc x) in
      if max <? used' then ([], used)
      else let '(l, u) := take_fit enc max used' r in (x :: l, u)
  end.

(* ---- encodeDigest / Gossip.gossip ---- *)
Definition digest_prefix (id addr : string) (req : bool) : bytes := [1; 0] ++ enc_digest_header id addr req.

Definition cut_digest (id addr : string) (req : bool) (dg : list dig_entry) (max : N) : option (list dig_entry) :=
  let hdr := digest_prefix id addr req in
  if max <? blen hdr then None else Some (fst (take_fit enc_dig_entry max (blen hdr) dg)).

Definition encode_digest_full (id addr : string) (req : bool) (dg : list dig_entry) : bytes :=
  digest_prefix id addr req ++ flat_map enc_dig_entry dg.

Definition encode_digest (id addr : string) (req : bool) (dg : list dig_entry) (max : N) : option bytes :=
  match cut_digest id addr req dg max with
  | None => None
  | Some sent => Some (encode_digest_full id addr req sent)
  end.

(* ---- encodeDelta ---- *)
Definition delta_prefix (id addr : string) : bytes := [2; 0] ++ enc_delta_header id addr 0.

(* what a delta packet carries: per node the advertised count and the entries that fitted *)
Record delta_part := { dp_id : string; dp_addr : string; dp_count : N; dp_ents : list entry }.

Definition enc_part (p : delta_part) : bytes :=
  enc_delta_header (dp_id p) (dp_addr p) (dp_count p) ++ flat_map enc_entry (dp_ents p).

(* returns the parts sent; the flag says whether the loop stopped (something did not fit) *)
Fixpoint cut_delta_from (max used : N) (dl : list delta_entry) : list delta_part :=
  match dl with
  | [] => []
  | de :: r =>
      let cnt := N.of_nat (List.length (de_ents de)) in
      let used1 := used + blen (enc_delta_header (de_id de) (de_addr de) cnt) in
      if max <? used1 then []
      else
        let '(es, used2) := take_fit enc_entry max used1 (de_ents de) in
        let part := {| dp_id := de_id de; dp_addr := de_addr de; dp_count := cnt; dp_ents := es |} in
        if Nat.ltb (List.length es) (List.length (de_ents de)) then [part]
        else part :: cut_delta_from max used2 r
  end.

Definition cut_delta (id addr : string) (dl : list delta_entry) (max : N) : option (list delta_part) :=
  let hdr := delta_prefix id addr in
  if max <? blen hdr then None else Some (cut_delta_from max (blen hdr) dl).

Definition encode_delta_full (id addr : string) (parts : list delta_part) : bytes :=
  delta_prefix id addr ++ flat_map enc_part parts.

Definition encode_delta (id addr : string) (dl : list delta_entry) (max : N) : option bytes :=
  match cut_delta id addr dl max with
  | None => None
  | Some parts => Some (encode_delta_full id addr parts)
  end.

(* what decodeDelta yields for such a packet *)
Definition part_to_delta (p : delta_part) : delta_entry :=
  {| de_id := dp_id p; de_addr := dp_addr p; de_ents := dp_ents p |}.
