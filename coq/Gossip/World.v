(* A cluster of gossip nodes and the packets in flight between them: packetListener.handlePacket /
   digest / delta / sendDelta / sendDigest, Gossip.gossip, the join / leave streams
   (pkg/gossip/listener.go, gossip.go). Nondeterministic choices of the real code (shuffle and map order,
   wall clock) are oracle arguments whose legality the model checks. Models only. *)
From Coq Require Import List String NArith ZArith Bool.
From Piko Require Import Base.Maps Base.Strs Base.Utf8 Gossip.Types Gossip.Local Gossip.Apply Gossip.Codec.
Import ListNotations.
Open Scope string_scope. Open Scope list_scope. Open Scope N_scope.

Inductive pbody :=
| PDigest (from_id from_addr : string) (req : bool) (dg : list dig_entry)
| PDelta (from_id from_addr : string) (parts : list delta_part).

Record packet := { p_dst : string; p_bytes : bytes; p_body : pbody }.

Record world := {
  w_nodes : list cstate;          (* node i *)
  w_net : list packet;            (* in flight, oldest first *)
  w_logs : amap (list entry)      (* ghost: every entry each owner ever wrote *)
}.

Definition init_world (specs : list (string * string)) : world :=
  {| w_nodes := map (fun sp => new_cstate (fst sp) (snd sp)) specs; w_net := []; w_logs := [] |}.

Fixpoint set_nth {A} (i : nat) (x : A) (l : list A) : list A :=
  match l, i with
  | [], _ => []
  | _ :: l', O => x :: l'
  | y :: l', S i' => y :: set_nth i' x l'
  end.

Fixpoint remove_nth {A} (i : nat) (l : list A) : list A :=
  match l, i with
  | [], _ => []
  | _ :: l', O => l'
  | y :: l', S i' => y :: remove_nth i' l'
  end.

Definition find_node_by_addr (nodes : list cstate) (addr : string) : option nat :=
  let fix go (i : nat) (l : list cstate) :=
    match l with
    | [] => None
    | c :: r => match local_node c with
                | Some s => if String.eqb (n_addr s) addr then Some i else go (S i) r
                | None => go (S i) r end
    end in go O nodes.

(* ---- legality of an observed digest order (the packet shows only the prefix that fitted) ---- *)
Fixpoint nodupb (l : list string) : bool :=
  match l with [] => true | x :: r => negb (existsb (String.eqb x) r) && nodupb r end.

Definition digest_in_order (c : cstate) (order : list string) : option (list dig_entry) :=
  fold_right (fun id acc => match acc, lookup id (c_nodes c) with
                            | Some l, Some s => Some (dig_of_node s :: l)
                            | _, _ => None end) (Some []) order.

(* [order] = the ids seen in the packet. Legal iff: distinct known ids, all fit, and either every node is
   listed or some unlisted node's entry would not have fitted after them. *)
Definition digest_order_ok (c : cstate) (id addr : string) (req : bool) (order : list string) (max : N) : bool :=
  match digest_in_order c order with
  | None => false
  | Some dg =>
      nodupb order &&
      let used := blen (encode_digest_full id addr req dg) in
      (used <=? max) &&
      let rest := filter (fun s => negb (existsb (String.eqb (n_id s)) order)) (values (c_nodes c)) in
      match rest with
      | [] => true
      | _ => existsb (fun s => max <? used + blen (enc_dig_entry (dig_of_node s))) rest
      end
  end.

(* sendDigest / Gossip.gossip: None = the call returns an error (header larger than max) or illegal oracle *)
Definition make_digest_packet (c : cstate) (dst : string) (req : bool) (order : list string) (max : N)
  : option packet :=
  match local_node c with
  | None => None
  | Some me =>
      if max <? blen (digest_prefix (n_id me) (n_addr me) req) then None else
      if digest_order_ok c (n_id me) (n_addr me) req order max then
        match digest_in_order c order with
        | Some dg => Some {| p_dst := dst; p_bytes := encode_digest_full (n_id me) (n_addr me) req dg;
                             p_body := PDigest (n_id me) (n_addr me) req dg |}
        | None => None end
      else None
  end.

Definition make_delta_packet (c : cstate) (dst : string) (dl : list delta_entry) (max : N) : option packet :=
  match local_node c with
  | None => None
  | Some me =>
      match cut_delta (n_id me) (n_addr me) dl max with
      | None => None
      | Some parts => Some {| p_dst := dst; p_bytes := encode_delta_full (n_id me) (n_addr me) parts;
                              p_body := PDelta (n_id me) (n_addr me) parts |}
      end
  end.

Record handled := { h_state : cstate; h_events : list event; h_out : list packet; h_err : bool;
                    h_oracle_ok : bool; h_reports : list string }.

(* packetListener.handlePacket on a decoded packet body. [order] is the oracle for the digest reply. *)
Definition handle_packet (c : cstate) (b : pbody) (max : N) (nows : amap Z) (order : list string) : handled :=
  match b with
  | PDigest _ from_addr req dg =>
      let '(c1, ev) := apply_digest c dg in
      let dl := delta_for c1 dg in
      match make_delta_packet c1 from_addr dl max with
      | None => {| h_state := c1; h_events := ev; h_out := []; h_err := true; h_oracle_ok := true; h_reports := [] |}
      | Some pd =>
          if req then
            match local_node c1 with
            | None => {| h_state := c1; h_events := ev; h_out := [pd]; h_err := true; h_oracle_ok := false; h_reports := [] |}
            | Some me =>
                if max <? blen (digest_prefix (n_id me) (n_addr me) false) then
                  {| h_state := c1; h_events := ev; h_out := [pd]; h_err := true; h_oracle_ok := true; h_reports := [] |}
                else
                match make_digest_packet c1 from_addr false order max with
                | Some pg => {| h_state := c1; h_events := ev; h_out := [pd; pg]; h_err := false; h_oracle_ok := true; h_reports := [] |}
                | None => {| h_state := c1; h_events := ev; h_out := [pd]; h_err := false; h_oracle_ok := false; h_reports := [] |}
                end
            end
          else {| h_state := c1; h_events := ev; h_out := [pd]; h_err := false; h_oracle_ok := true; h_reports := [] |}
      end
  | PDelta from_id _ parts =>
      let '(c1, ev) := apply_delta nows c (map part_to_delta parts) in
      {| h_state := c1; h_events := ev; h_out := []; h_err := false; h_oracle_ok := true; h_reports := [from_id] |}
  end.

(* clusterState.ApplyDigest / applyDeltaEntry ignore every node whose id is not valid UTF-8 (ids become metric label
   values, which panic otherwise: finding U1). Members' ids are valid UTF-8 (configuration), so this only ever matters
   for packets forged outside the cluster: the model applies it where those enter (WInject). *)
Definition sanitize_body (b : pbody) : pbody :=
  match b with
  | PDigest fi fa rq dg => PDigest fi fa rq (filter (fun d => valid_utf8 (d_id d)) dg)
  | PDelta fi fa parts => PDelta fi fa (filter (fun p => valid_utf8 (dp_id p)) parts)
  end.

(* ---- ghost log maintenance for local writes ---- *)
Definition new_entries (old new : node_state) : list entry :=
  filter (fun e => match lookup (e_key e) (n_ents old) with
                   | Some e' => negb (entry_eqb e e') | None => true end) (values (n_ents new)).

Definition log_of (w : world) (id : string) : list entry :=
  match lookup id (w_logs w) with Some l => l | None => [] end.

Definition local_update (w : world) (i : nat) (f : node_state -> node_state) : world :=
  match nth_error (w_nodes w) i with
  | None => w
  | Some c =>
      match local_node c with
      | None => w
      | Some me =>
          let me' := f me in
          {| w_nodes := set_nth i (set_nodes c (insert (c_local c) me' (c_nodes c))) (w_nodes w);
             w_net := w_net w;
             w_logs := insert (c_local c) (log_of w (c_local c) ++ new_entries me me') (w_logs w) |}
      end
  end.

(* ---- world operations ---- *)
Inductive wop :=
| WLocal (n : nat) (o : lop)
| WSend (a b : nat) (order : list string) (max : N)
| WDeliver (i : nat) (keep : bool) (max : N) (nows : amap Z) (order : list string)   (* keep = duplicate *)
| WDrop (i : nat)
| WNop
| WInject (n : nat) (b : pbody) (max : N) (nows : amap Z) (order : list string)   (* a packet from outside *)
| WLiveness (n : nat) (suspects : list string) (nows : amap Z)
| WExpire (n : nat) (t : Z)
| WJoin (a b : nat) (nows_a nows_b : amap Z)
| WLeaveStream (a b : nat) (nows : amap Z).

Record step_out := { so_world : world; so_events : list (nat * event); so_sent : list packet;
                     so_err : bool; so_oracle_ok : bool; so_reports : list string }.

Definition tag (i : nat) (ev : list event) : list (nat * event) := map (fun e => (i, e)) ev.

Definition plain (w : world) : step_out :=
  {| so_world := w; so_events := []; so_sent := []; so_err := false; so_oracle_ok := true; so_reports := [] |}.

Definition with_nodes (w : world) (nodes : list cstate) (net : list packet) : world :=
  {| w_nodes := nodes; w_net := net; w_logs := w_logs w |}.

Definition wstep (w : world) (o : wop) : step_out :=
  match o with
  | WLocal n lo => plain (local_update w n (fun s => local_step s lo))
  | WSend a b order max =>
      match nth_error (w_nodes w) a, nth_error (w_nodes w) b with
      | Some ca, Some cb =>
          match local_node cb with
          | None => plain w
          | Some sb =>
              match make_digest_packet ca (n_addr sb) true order max with
              | Some p => {| so_world := with_nodes w (w_nodes w) (w_net w ++ [p]); so_events := []; so_sent := [p];
                             so_err := false; so_oracle_ok := true; so_reports := [] |}
              | None =>
                  (* either the header does not fit (an error of the real call) or the oracle is illegal *)
                  let hdr_err := match local_node ca with
                                 | Some me => max <? blen (digest_prefix (n_id me) (n_addr me) true)
                                 | None => false end in
                  {| so_world := w; so_events := []; so_sent := []; so_err := hdr_err; so_oracle_ok := hdr_err; so_reports := [] |}
              end
          end
      | _, _ => plain w
      end
  | WDeliver i keep max nows order =>
      match nth_error (w_net w) i with
      | None => plain w
      | Some p =>
          let net' := if keep then w_net w else remove_nth i (w_net w) in
          match find_node_by_addr (w_nodes w) (p_dst p) with
          | None => plain (with_nodes w (w_nodes w) net')
          | Some d =>
              match nth_error (w_nodes w) d with
              | None => plain w
              | Some c =>
                  let hd := handle_packet c (p_body p) max nows order in
                  {| so_world := with_nodes w (set_nth d (h_state hd) (w_nodes w)) (net' ++ h_out hd);
                     so_events := tag d (h_events hd); so_sent := h_out hd; so_err := h_err hd;
                     so_oracle_ok := h_oracle_ok hd; so_reports := h_reports hd |}
              end
          end
      end
  | WDrop i => plain (with_nodes w (w_nodes w) (remove_nth i (w_net w)))
  | WNop => plain w
  | WInject n b max nows order =>
      match nth_error (w_nodes w) n with
      | None => plain w
      | Some c =>
          let hd := handle_packet c (sanitize_body b) max nows order in
          {| so_world := with_nodes w (set_nth n (h_state hd) (w_nodes w)) (w_net w);
             so_events := tag n (h_events hd); so_sent := h_out hd; so_err := h_err hd;
             so_oracle_ok := h_oracle_ok hd; so_reports := h_reports hd |}
      end
  | WLiveness n suspects nows =>
      match nth_error (w_nodes w) n with
      | None => plain w
      | Some c =>
          let '(c', ev) := update_liveness (fun id => existsb (String.eqb id) suspects) nows c in
          {| so_world := with_nodes w (set_nth n c' (w_nodes w)) (w_net w); so_events := tag n ev; so_sent := [];
             so_err := false; so_oracle_ok := true; so_reports := [] |}
      end
  | WExpire n t =>
      match nth_error (w_nodes w) n with
      | None => plain w
      | Some c =>
          let '(c', ev) := remove_expired t c in
          {| so_world := with_nodes w (set_nth n c' (w_nodes w)) (w_net w); so_events := tag n ev; so_sent := [];
             so_err := false; so_oracle_ok := true; so_reports := [] |}
      end
  | WJoin a b nows_a nows_b =>
      if Nat.eqb a b then plain w else
      match nth_error (w_nodes w) a, nth_error (w_nodes w) b with
      | Some ca, Some cb =>
          match local_node ca with
          | None => plain w
          | Some ma =>
              (* b: ApplyDelta(LocalDelta of a); ApplyDigest(a's digest); reply Delta(digest, true) *)
              let dga := digest_of ca in
              let '(cb1, ev1) := apply_delta nows_b cb [delta_entry_of ma 0] in
              let '(cb2, ev2) := apply_digest cb1 dga in
              let reply := delta_for cb2 dga ++ delta_extras cb2 (extras_ids cb2 dga) in
              let '(ca1, ev3) := apply_delta nows_a ca reply in
              {| so_world := with_nodes w (set_nth a ca1 (set_nth b cb2 (w_nodes w))) (w_net w);
                 so_events := tag b (ev1 ++ ev2) ++ tag a ev3; so_sent := []; so_err := false;
                 so_oracle_ok := true; so_reports := [] |}
          end
      | _, _ => plain w
      end
  | WLeaveStream a b nows =>
      if Nat.eqb a b then plain w else
      match nth_error (w_nodes w) a, nth_error (w_nodes w) b with
      | Some ca, Some cb =>
          match local_node ca with
          | None => plain w
          | Some ma =>
              let '(cb1, ev1) := apply_delta nows cb [delta_entry_of ma 0] in
              {| so_world := with_nodes w (set_nth b cb1 (w_nodes w)) (w_net w);
                 so_events := tag b ev1; so_sent := []; so_err := false; so_oracle_ok := true; so_reports := [] |}
          end
      | _, _ => plain w
      end
  end.

Definition wrun (w : world) (ops : list wop) : world := fold_left (fun w o => so_world (wstep w o)) ops w.
