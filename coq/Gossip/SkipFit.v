(* A VARIANT of the packing loop of encodeDelta (Gossip/Codec.v take_fit): "fill the packet" - an entry that does not fit is
   skipped and the following, smaller entries are still packed (written independently by five authors of seeded changes:
   C02-12, C03, C04-11, C17 of round 6, and round 3's C03-1). Model only; refutation in GossipP/SkipFitP.v. *)
From Coq Require Import List String NArith Bool.
From Piko Require Import Base.Maps Base.Strs Gossip.Types Gossip.Codec.
Import ListNotations.
Local Open Scope N_scope.

Fixpoint take_skip {A} (enc : A -> bytes) (max used : N) (items : list A) : list A * N :=
  match items with
  | [] => ([], used)
  | x :: r =>
      let used' := used + blen (enc x) in
      if max <? used' then take_skip enc max used r                         (* skipped, the loop goes on *)
      else let '(l, u) := take_skip enc max used' r in (x :: l, u)
  end.
