(* LoadBalancedManager (server/upstream/manager.go:71-173) composed with the parts of cluster.State it
   drives (server/cluster/state.go: AddLocalEndpoint, RemoveLocalEndpoint, LocalEndpointListeners,
   LookupEndpoint, the remote-node mutators), the syncer's subscriber
   (server/gossip/syncer.go: Sync, onLocalEndpointUpdate) and the local gossip state
   (Piko.Gossip.Local = pkg/gossip/state.go UpsertLocal/DeleteLocal). Model only; proofs in UpstreamP/. *)
From Coq Require Import List String NArith ZArith Bool Arith.
From Piko Require Import Base.Maps Base.Strs Gossip.Types Gossip.Local Upstream.Balancer.
Import ListNotations.
Open Scope string_scope. Open Scope list_scope.

(* cluster.Node of a REMOTE node, restricted to what LookupEndpoint reads   node.go:26-52 *)
Record rnode := { r_status : string; r_eps : amap Z }.
Definition statusActive : string := "active".       (* cluster.NodeStatusActive   node.go:17 *)

Record mstate := {
  m_local : string;        (* cluster.State.localID *)
  m_lbs : amap lb;         (* LoadBalancedManager.localUpstreams   manager.go:72 *)
  m_counts : amap N;       (* cluster.State.nodes[localID].Endpoints   state.go:17, node.go:51 *)
  m_remote : amap rnode;   (* cluster.State.nodes without the local node *)
  m_gossip : node_state    (* pkg/gossip clusterState.nodes[localID], written through the syncer *)
}.

Definition set_lbs (s : mstate) (l : amap lb) : mstate :=
  {| m_local := m_local s; m_lbs := l; m_counts := m_counts s; m_remote := m_remote s; m_gossip := m_gossip s |}.
Definition set_counts (s : mstate) (c : amap N) : mstate :=
  {| m_local := m_local s; m_lbs := m_lbs s; m_counts := c; m_remote := m_remote s; m_gossip := m_gossip s |}.
Definition set_remote (s : mstate) (r : amap rnode) : mstate :=
  {| m_local := m_local s; m_lbs := m_lbs s; m_counts := m_counts s; m_remote := r; m_gossip := m_gossip s |}.
Definition set_gossip (s : mstate) (g : node_state) : mstate :=
  {| m_local := m_local s; m_lbs := m_lbs s; m_counts := m_counts s; m_remote := m_remote s; m_gossip := g |}.

(* key := "endpoint:" + endpointID   syncer.go:61, 411 *)
Definition ep_key (e : string) : string := "endpoint:" ++ e.

(* cluster.NewState + NewLoadBalancedManager + newSyncer(...).Sync(gossiper) on a node that has no
   endpoints yet: Sync upserts proxy_addr then admin_addr   state.go:30-47, manager.go:83-90, syncer.go:49-64 *)
Definition minit (id gossip_addr proxy_addr admin_addr : string) : mstate :=
  {| m_local := id; m_lbs := []; m_counts := []; m_remote := [];
     m_gossip := upsert_local "admin_addr" admin_addr (upsert_local "proxy_addr" proxy_addr (new_node id gossip_addr)) |}.

(* func (s *State) LocalEndpointListeners(endpointID) int   state.go:188-200 *)
Definition local_listeners (e : string) (s : mstate) : N :=
  match lookup e (m_counts s) with Some c => c | None => 0%N end.

(* func (s *syncer) onLocalEndpointUpdate(endpointID)   syncer.go:410-418 *)
Definition on_local_endpoint_update (e : string) (s : mstate) : mstate :=
  let c := local_listeners e s in
  set_gossip s (if (0 <? c)%N then upsert_local (ep_key e) (itoa (Z.of_N c)) (m_gossip s)
                else delete_local (ep_key e) (m_gossip s)).

(* func (s *State) AddLocalEndpoint(endpointID)   state.go:128-150 (then every subscriber) *)
Definition add_local_endpoint (e : string) (s : mstate) : mstate :=
  on_local_endpoint_update e (set_counts s (insert e (local_listeners e s + 1)%N (m_counts s))).

(* func (s *State) RemoveLocalEndpoint(endpointID)   state.go:153-186: unknown / zero => warn and return
   WITHOUT calling the subscribers *)
Definition remove_local_endpoint (e : string) (s : mstate) : mstate :=
  match lookup e (m_counts s) with
  | None => s
  | Some c =>
      if (c =? 0)%N then s else
      on_local_endpoint_update e
        (set_counts s (if (1 <? c)%N then insert e (c - 1)%N (m_counts s) else remove e (m_counts s)))
  end.

(* func (m *LoadBalancedManager) AddConn(u)   manager.go:115-132 *)
Definition add_conn (u : N) (e : string) (s : mstate) : mstate :=
  let b := match lookup e (m_lbs s) with Some b => b | None => lb_empty end in
  add_local_endpoint e (set_lbs s (insert e (lb_add u b) (m_lbs s))).

(* func (m *LoadBalancedManager) RemoveConn(u)   manager.go:134-158 (with the D1 fix: lines 142 and 148-153) *)
Definition remove_conn (u : N) (e : string) (s : mstate) : mstate :=
  match lookup e (m_lbs s) with
  | None => s
  | Some b =>
      let registered := List.length (ups b) in
      let '(b', empty) := lb_remove u b in
      let s1 := set_lbs s (if empty then remove e (m_lbs s) else insert e b' (m_lbs s)) in
      if Nat.eqb (List.length (ups b')) registered then s1 else remove_local_endpoint e s1
  end.

(* RemoveConn as it was on the pinned tree (before commit "fix: removing an already removed upstream must
   not decrement the advertised count"): RemoveLocalEndpoint is called whenever a balancer exists *)
Definition remove_conn_pinned (u : N) (e : string) (s : mstate) : mstate :=
  match lookup e (m_lbs s) with
  | None => s
  | Some b =>
      let '(b', empty) := lb_remove u b in
      remove_local_endpoint e (set_lbs s (if empty then remove e (m_lbs s) else insert e b' (m_lbs s)))
  end.

(* func (s *State) LookupEndpoint(endpointID) returning a Node and ok   state.go:106-125. Go iterates a map and returns the
   first match, i.e. ANY active remote node with listeners > 0: the model returns the whole candidate set. *)
Definition is_candidate (local e : string) (kv : string * rnode) : bool :=
  negb (String.eqb (fst kv) local)
  && String.eqb (r_status (snd kv)) statusActive
  && match lookup e (r_eps (snd kv)) with Some n => (0 <? n)%Z | None => false end.
Definition candidates (e : string) (s : mstate) : list string :=
  map fst (filter (is_candidate (m_local s) e) (m_remote s)).

(* result of Select: a local upstream, (nil, true) [a balancer that yields nothing], a remote node out of the
   candidate set, or (nil, false) *)
Inductive sel := SLocal (u : N) | SNil | SRemote (cands : list string) | SNone.

(* func (m *LoadBalancedManager) Select(endpointID, allowRemote)   manager.go:92-113 *)
Definition select (e : string) (allow : bool) (s : mstate) : sel * mstate :=
  match lookup e (m_lbs s) with
  | Some b =>
      let '(r, b') := lb_next b in
      (match r with Some u => SLocal u | None => SNil end, set_lbs s (insert e b' (m_lbs s)))
  | None =>
      if allow then
        match candidates e s with
        | [] => (SNone, s)
        | c => (SRemote c, s)
        end
      else (SNone, s)
  end.

(* func (m *LoadBalancedManager) Endpoints() map[string]int   manager.go:160-169 *)
Definition endpoints (s : mstate) : list (string * nat) :=
  map (fun kv => (fst kv, List.length (ups (snd kv)))) (m_lbs s).

(* remote-node mutators of cluster.State, driven by the syncer's watcher callbacks *)
(* AddNode   state.go:223-240 *)
Definition add_node (id status : string) (eps : amap Z) (s : mstate) : mstate :=
  if String.eqb id (m_local s) then s
  else set_remote s (insert id {| r_status := status; r_eps := eps |} (m_remote s)).
(* RemoveNode   state.go:243-262 *)
Definition remove_node (id : string) (s : mstate) : mstate :=
  if String.eqb id (m_local s) then s else set_remote s (remove id (m_remote s)).
(* UpdateRemoteStatus   state.go:265-284 *)
Definition update_remote_status (id status : string) (s : mstate) : mstate :=
  if String.eqb id (m_local s) then s else
  match lookup id (m_remote s) with
  | None => s
  | Some n => set_remote s (insert id {| r_status := status; r_eps := r_eps n |} (m_remote s))
  end.
(* UpdateRemoteEndpoint / updateRemoteEndpointLocked   state.go:288-310, 359-382 *)
Definition update_remote_endpoint (id e : string) (n : Z) (s : mstate) : mstate :=
  if String.eqb id (m_local s) then s else
  match lookup id (m_remote s) with
  | None => s
  | Some nd => set_remote s (insert id {| r_status := r_status nd; r_eps := insert e n (r_eps nd) |} (m_remote s))
  end.
(* RemoveRemoteEndpoint / removeRemoteEndpointLocked   state.go:314-332, 384-401 *)
Definition remove_remote_endpoint (id e : string) (s : mstate) : mstate :=
  if String.eqb id (m_local s) then s else
  match lookup id (m_remote s) with
  | None => s
  | Some nd => set_remote s (insert id {| r_status := r_status nd; r_eps := remove e (r_eps nd) |} (m_remote s))
  end.

(* ---- the whole thing as a state machine ---- *)
Inductive mop :=
| MAdd (u : N) (e : string)                     (* AddConn of upstream (u, e) *)
| MRemove (u : N) (e : string)                  (* RemoveConn of upstream (u, e) *)
| MSelect (e : string) (allow : bool)
| MAddNode (id status : string) (eps : amap Z)
| MRemoveNode (id : string)
| MStatus (id status : string)
| MRemoteEp (id e : string) (n : Z)
| MRemoteEpDel (id e : string).

Definition mstep (s : mstate) (o : mop) : mstate * option sel :=
  match o with
  | MAdd u e => (add_conn u e s, None)
  | MRemove u e => (remove_conn u e s, None)
  | MSelect e allow => let '(r, s') := select e allow s in (s', Some r)
  | MAddNode id st eps => (add_node id st eps s, None)
  | MRemoveNode id => (remove_node id s, None)
  | MStatus id st => (update_remote_status id st s, None)
  | MRemoteEp id e n => (update_remote_endpoint id e n s, None)
  | MRemoteEpDel id e => (remove_remote_endpoint id e s, None)
  end.

Definition mrun (s : mstate) (ops : list mop) : mstate := fold_left (fun s o => fst (mstep s o)) ops s.

(* the same machine with the pinned-tree RemoveConn *)
Definition mstep_pinned (s : mstate) (o : mop) : mstate * option sel :=
  match o with
  | MRemove u e => (remove_conn_pinned u e s, None)
  | _ => mstep s o
  end.
Definition mrun_pinned (s : mstate) (ops : list mop) : mstate := fold_left (fun s o => fst (mstep_pinned s o)) ops s.

(* ---- the three counts of C05 ---- *)
(* upstreams registered for e on this node = length of its balancer, 0 when there is none *)
Definition registered_count (e : string) (s : mstate) : nat :=
  match lookup e (m_lbs s) with Some b => List.length (ups b) | None => O end.
(* the live (not deleted) value of a key of the local gossip state *)
Definition gossip_live (k : string) (g : node_state) : option string :=
  match lookup k (n_ents g) with
  | Some en => if e_del en then None else Some (e_val en)
  | None => None
  end.
(* what the rest of the cluster is told: strconv.Atoi of the live entry "endpoint:<e>" (syncer.go:284-297
   on the receiving side), absent entry = not advertised = 0. None = an unparsable value. *)
Definition advertised_count (e : string) (s : mstate) : option Z :=
  match gossip_live (ep_key e) (m_gossip s) with
  | Some v => atoi v
  | None => Some 0%Z
  end.
