(* Round-robin balancer: loadBalancer of server/upstream/manager.go:36-69. Model only; proofs in UpstreamP/.
   Upstream identity in Go is pointer identity; inside one balancer an upstream is its uid : N
   (the endpoint is the key the balancer is stored under). The same uid may occur several times
   (AddConn of the same pointer twice is allowed by the code). *)
From Coq Require Import List NArith Bool Arith.
Import ListNotations.
Open Scope list_scope.

(* type loadBalancer struct { upstreams []Upstream; nextIndex int }   manager.go:36-39 *)
Record lb := { ups : list N; nxt : nat }.

(* &loadBalancer{}   manager.go:120 *)
Definition lb_empty : lb := {| ups := []; nxt := 0 |}.

(* func (lb *loadBalancer) Add(u)   manager.go:41-43 *)
Definition lb_add (u : N) (b : lb) : lb := {| ups := ups b ++ [u]; nxt := nxt b |}.

(* the loop of Remove: drop the FIRST occurrence; None = not found   manager.go:46-50 *)
Fixpoint remove_first (u : N) (l : list N) : option (list N) :=
  match l with
  | [] => None
  | x :: l' => if N.eqb x u then Some l' else option_map (cons x) (remove_first u l')
  end.

(* func (lb *loadBalancer) Remove(u) bool   manager.go:45-58.
   Result: new balancer and Go's return value ("the balancer is now empty").
   When the last upstream is removed nextIndex is left as it is (lines 51-53 return before the modulo). *)
Definition lb_remove (u : N) (b : lb) : lb * bool :=
  match remove_first u (ups b) with
  | None => (b, match ups b with [] => true | _ => false end)
  | Some [] => ({| ups := []; nxt := nxt b |}, true)
  | Some l => ({| ups := l; nxt := Nat.modulo (nxt b) (List.length l) |}, false)
  end.

(* func (lb *loadBalancer) Next() Upstream   manager.go:60-69.
   None = nil result (empty balancer) or an index out of range (a Go panic); the proofs show that
   neither happens for a balancer stored in the manager. *)
Definition lb_next (b : lb) : option N * lb :=
  match ups b with
  | [] => (None, b)
  | _ => (nth_error (ups b) (nxt b),
          {| ups := ups b; nxt := Nat.modulo (S (nxt b)) (List.length (ups b)) |})
  end.

(* the balancer as a state machine *)
Inductive bop := BAdd (u : N) | BRemove (u : N) | BNext.

Definition lb_step (b : lb) (o : bop) : lb * list (option N) :=
  match o with
  | BAdd u => (lb_add u b, [])
  | BRemove u => (fst (lb_remove u b), [])
  | BNext => let '(r, b') := lb_next b in (b', [r])
  end.

(* run an op list, collecting the results of the Next calls in order *)
Fixpoint lb_run (b : lb) (ops : list bop) : lb * list (option N) :=
  match ops with
  | [] => (b, [])
  | o :: r => let '(b1, o1) := lb_step b o in let '(b2, o2) := lb_run b1 r in (b2, o1 ++ o2)
  end.

(* k consecutive Next calls *)
Definition lb_nexts (k : nat) (b : lb) : lb * list (option N) := lb_run b (repeat BNext k).

Definition count_next (ops : list bop) : nat :=
  List.length (filter (fun o => match o with BNext => true | _ => false end) ops).
Definition count_add (ops : list bop) : nat :=
  List.length (filter (fun o => match o with BAdd _ => true | _ => false end) ops).
