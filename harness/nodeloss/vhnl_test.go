//go:build verif

// Verification harness for property C18 (losing a node). Injected into package server with `go test -overlay`
// (never copied into /repo).
//
// Every scenario runs an in-process cluster of three REAL server nodes (server.NewServer + Start, the way
// pikotest/cluster.NewNode builds them; that package cannot be imported from here - import cycle) on loopback with a
// short gossip interval, REAL client listeners (client.Upstream.Listen) serving a stamping HTTP handler, and plain HTTP
// requests to every node's proxy port. A client has a single server URL, so every listener gets a tiny TCP front that
// tries the nodes' upstream ports in a fixed order starting with a preferred node (what a load balancer does).
//
// One node is then lost: gracefully (Server.Shutdown, the code under test) or by a crash (its gossip sockets, its
// listeners and every connection it accepted are closed abruptly, no Leave). Everything the monitor and the Coq model
// need is recorded: duration of Shutdown, the leaver's own state afterwards, the status of the lost node in every
// survivor's cluster.State over time (polled every few ms), LookupEndpoint samples, which node each listener's
// connections went to, whether Accept returned, local registrations, and every request with its answer.
package server

import (
	"runtime"
	"context"
	"encoding/json"
	"errors"
	"fmt"
	"io"
	"net"
	"net/http"
	"net/url"
	"os"
	"sort"
	"strings"
	"sync"
	"sync/atomic"
	"testing"
	"time"

	pikoclient "github.com/andydunstall/piko/client"
	pkggossip "github.com/andydunstall/piko/pkg/gossip"
	"github.com/andydunstall/piko/pkg/log"
	"github.com/andydunstall/piko/server/config"
)

// ---------------------------------------------------------------- input / output

type vhnlEndpoint struct {
	ID        string `json:"id"`
	Listeners []int  `json:"listeners"` // preferred node index of every listener of this endpoint
}

type vhnlScenario struct {
	ID             string         `json:"id"`
	Lose           int            `json:"lose"` // node index to lose
	Mode           string         `json:"mode"` // graceful | crash | mid (crash MidMs after Shutdown started)
	MidMs          int            `json:"mid_ms"`
	Phase          string         `json:"phase"` // idle | connected | inflight
	GossipMs       int            `json:"gossip_ms"`
	GraceMs        int            `json:"grace_ms"`
	DelayMs        int            `json:"delay_ms"` // handler delay of the in-flight requests
	Endpoints      []vhnlEndpoint `json:"endpoints"`
	Closing        []string       `json:"closing"`         // per listener (flattened): shutdown | ctx ; missing = shutdown
	DropReconnects int            `json:"drop_reconnects"` // reconnection attempts refused before the front lets a listener through again
	BoundMs        int            `json:"bound_ms"`        // generous bound for every "eventually"
	// Ghost: "" | "left" | "crashed". A fourth node joins, and is lost (gracefully / by a crash) BEFORE the scenario
	// proper, so that the three nodes still remember a departed member when the node under test is lost.
	Ghost string `json:"ghost"`
	// Extra live nodes (n3, n4, ...) besides the three the listeners know: with five or more peers a leaving node does
	// not notify everybody itself (Leave stops after the 4th acknowledgement), the rest must follow through gossip.
	Extra int `json:"extra"`
	// Rebalance: every node runs the upstream rebalance loop (threshold 5.0: enabled, never triggered by these loads)
	Rebalance bool `json:"rebalance"`
	// InflightAtLost: in the inflight phase slow requests also ENTER at the node that is going to be lost, for endpoints whose
	// listeners sit on the survivors (they keep the departing node's proxy busy for delay_ms, whatever happens to its upstreams)
	InflightAtLost bool `json:"inflight_at_lost"`
	// DropClean: the refused reconnection attempts are accepted and then closed CLEANLY without a byte of answer (what a layer-4
	// load balancer does while it still points at the lost node) instead of being reset
	DropClean bool `json:"drop_clean"`
}

type vhnlRNode struct {
	ID        string         `json:"id"`
	Status    string         `json:"status"`
	Endpoints map[string]int `json:"endpoints"`
}

type vhnlEntry struct {
	Key      string `json:"key"`
	Value    string `json:"value"`
	Version  uint64 `json:"version"`
	Internal bool   `json:"internal"`
	Deleted  bool   `json:"deleted"`
}

type vhnlGView struct {
	Known       bool        `json:"known"`
	Version     uint64      `json:"version"`
	Left        bool        `json:"left"`
	Unreachable bool        `json:"unreachable"`
	Entries     []vhnlEntry `json:"entries"`
}

type vhnlSurvivor struct {
	Node        string              `json:"node"`
	PreRouting  []vhnlRNode         `json:"pre_routing"` // cluster.State.Nodes() before the loss
	PreGossip   vhnlGView           `json:"pre_gossip"`  // gossip view of the node to lose, before
	Instant     string              `json:"instant"`     // status of the lost node the instant the loss call returned
	InstantLk   map[string][]string `json:"instant_lookup"`
	Timeline    []vhnlStatusAt      `json:"timeline"` // status changes of the lost node in this survivor's table
	PostRouting []vhnlRNode         `json:"post_routing"`
	PostGossip  vhnlGView           `json:"post_gossip"`
	PostLookup  map[string][]string `json:"post_lookup"` // endpoint -> distinct LookupEndpoint results ("" = none)
}

type vhnlStatusAt struct {
	Ms     int64  `json:"ms"` // on the scenario clock (loss_at_ms = start of the loss)
	Status string `json:"status"`
}

type vhnlLeaver struct {
	LiveBefore     []string       `json:"live_before"` // peers the leaver's gossip considers live right before
	LiveAfter      []string       `json:"live_after"`
	ReadyBefore    int            `json:"ready_before"`    // HTTP status of /ready
	ConnsBefore    map[string]int `json:"conns_before"`    // local endpoint counts before
	EndpointsAfter map[string]int `json:"endpoints_after"` // cluster.State local endpoints after (quiescent, polled)
	QuiesceMs      int64          `json:"quiesce_ms"`
	Own            vhnlGView      `json:"own"` // own gossip state after
	ProxyOpen      bool           `json:"proxy_open"`
	UpstreamOpen   bool           `json:"upstream_open"`
	AdminOpen      bool           `json:"admin_open"`
	GossipOpen     bool           `json:"gossip_open"`
}

type vhnlListenerObs struct {
	Endpoint      string   `json:"endpoint"`
	Idx           int      `json:"idx"`
	Preferred     string   `json:"preferred"`
	Backends      []string `json:"backends"`           // node of every connection the front established, in order
	AtLoss        string   `json:"at_loss"`            // node it was connected to when the loss started
	Refused       int      `json:"refused"`            // reconnection attempts the front refused (the client had to retry)
	Returned      string   `json:"returned,omitempty"` // class of the error Accept returned before the closing phase ("" = still accepting)
	ReturnedMs    int64    `json:"returned_ms,omitempty"`
	Closing       string   `json:"closing"` // closing op applied at the end
	CtxCancelled  bool     `json:"ctx_cancelled"`
	ClosedLocally bool     `json:"closed_locally"`
	Final         string   `json:"final"` // class of the error Accept returned after the closing op ("blocked" = none within the bound)
}

type vhnlReq struct {
	Ms     int64  `json:"ms"`    // on the scenario clock (loss_at_ms = start of the loss)
	Stage  string `json:"stage"` // pre | inflight | recovery | post
	Node   string `json:"node"`
	Ep     string `json:"ep"`
	Status int    `json:"status"` // 0 = transport error
	Body   string `json:"body"`
}

type vhnlRecovery struct {
	Node  string `json:"node"`
	Ep    string `json:"ep"`
	OkMs  int64  `json:"ok_ms"` // ms after the loss at which a request first succeeded with a stamp of ep; -1 never
	Tries int    `json:"tries"`
}

type vhnlObs struct {
	ID         string                    `json:"id"`
	Panic      string                    `json:"panic,omitempty"`
	Nodes      []string                  `json:"nodes"`
	Lost       string                    `json:"lost"`
	PreOK      bool                      `json:"pre_ok"`
	LossMs     int64                     `json:"loss_ms"`    // duration of Shutdown() / of the crash
	LossAtMs   int64                     `json:"loss_at_ms"` // when the loss started, on the clock of all the other *_ms fields
	GraceMs    int                       `json:"grace_ms"`
	Leaver     vhnlLeaver                `json:"leaver"`
	Survivors  []vhnlSurvivor            `json:"survivors"`
	Listeners  []vhnlListenerObs         `json:"listeners"`
	Registered map[string]map[string]int `json:"registered"` // survivor -> endpoint -> local count after recovery
	ReregMs    int64                     `json:"rereg_ms"`   // ms after the loss at which every listener was registered on a survivor; -1 never
	Recovery   []vhnlRecovery            `json:"recovery"`
	Requests   []vhnlReq                 `json:"requests"`
	Notes      []string                  `json:"notes,omitempty"`
}

// ---------------------------------------------------------------- tracking listener (crash = abrupt close)

type vhnlTrackLn struct {
	net.Listener
	mu    sync.Mutex
	conns map[net.Conn]struct{}
	dead  bool
}

type vhnlTrackConn struct {
	net.Conn
	ln *vhnlTrackLn
}

func (c *vhnlTrackConn) Close() error {
	c.ln.mu.Lock()
	delete(c.ln.conns, c.Conn)
	c.ln.mu.Unlock()
	return c.Conn.Close()
}

func vhnlTrack(ln net.Listener) *vhnlTrackLn {
	return &vhnlTrackLn{Listener: ln, conns: make(map[net.Conn]struct{})}
}

func (l *vhnlTrackLn) Accept() (net.Conn, error) {
	c, err := l.Listener.Accept()
	if err != nil {
		return nil, err
	}
	l.mu.Lock()
	if l.dead {
		l.mu.Unlock()
		vhnlAbort(c)
		return nil, net.ErrClosed
	}
	l.conns[c] = struct{}{}
	l.mu.Unlock()
	return &vhnlTrackConn{Conn: c, ln: l}, nil
}

func vhnlAbort(c net.Conn) {
	if tc, ok := c.(*net.TCPConn); ok {
		_ = tc.SetLinger(0) // RST, as when the process dies with unread data / the host goes away
	}
	_ = c.Close()
}

// kill closes the listener and resets every connection it accepted.
func (l *vhnlTrackLn) kill() {
	l.mu.Lock()
	l.dead = true
	conns := make([]net.Conn, 0, len(l.conns))
	for c := range l.conns {
		conns = append(conns, c)
	}
	l.conns = make(map[net.Conn]struct{})
	l.mu.Unlock()
	_ = l.Listener.Close()
	for _, c := range conns {
		vhnlAbort(c)
	}
}

// ---------------------------------------------------------------- nodes

type vhnlNode struct {
	id    string
	srv   *Server
	proxy *vhnlTrackLn
	up    *vhnlTrackLn
	admin *vhnlTrackLn
	down  bool
}

func vhnlStartNode(id string, join []string, sc vhnlScenario) *vhnlNode {
	conf := config.Default()
	conf.Proxy.BindAddr = "127.0.0.1:0"
	conf.Upstream.BindAddr = "127.0.0.1:0"
	conf.Admin.BindAddr = "127.0.0.1:0"
	conf.Cluster.NodeID = id
	conf.Cluster.Join = join
	conf.Cluster.Gossip.BindAddr = "127.0.0.1:0"
	conf.Cluster.Gossip.Interval = time.Duration(sc.GossipMs) * time.Millisecond
	conf.GracePeriod = time.Duration(sc.GraceMs) * time.Millisecond
	if sc.Rebalance {
		conf.Upstream.Rebalance.Threshold = 5.0
		conf.Upstream.Rebalance.ShedRate = 0.1
		conf.Upstream.Rebalance.MinConns = 1000
	}
	srv, err := NewServer(conf, log.NewNopLogger())
	if err != nil {
		panic("new server: " + err.Error())
	}
	n := &vhnlNode{id: id, srv: srv}
	// the listeners NewServer opened, wrapped so that a crash can reset every accepted connection
	n.proxy = vhnlTrack(srv.proxyLn)
	n.up = vhnlTrack(srv.upstreamLn)
	n.admin = vhnlTrack(srv.adminLn)
	srv.proxyLn, srv.upstreamLn, srv.adminLn = n.proxy, n.up, n.admin
	if err := srv.Start(); err != nil {
		panic("start " + id + ": " + err.Error())
	}
	return n
}

func (n *vhnlNode) proxyAddr() string    { return n.srv.conf.Proxy.AdvertiseAddr }
func (n *vhnlNode) upstreamAddr() string { return n.srv.conf.Upstream.AdvertiseAddr }
func (n *vhnlNode) adminAddr() string    { return n.srv.conf.Admin.AdvertiseAddr }
func (n *vhnlNode) gossipAddr() string   { return n.srv.conf.Cluster.Gossip.AdvertiseAddr }

// crash: what the rest of the world sees when the process dies: no Leave, gossip sockets gone, listeners gone, every
// established connection reset.
func (n *vhnlNode) crash() {
	n.srv.shutdown.Store(true) // keeps runGoroutine from treating the dead listeners as a fatal error to act on
	_ = n.srv.gossiper.Close()
	n.up.kill()
	n.proxy.kill()
	n.admin.kill()
	n.srv.rebalanceCancel()
}

func (n *vhnlNode) routing() []vhnlRNode {
	var out []vhnlRNode
	for _, x := range n.srv.clusterState.Nodes() {
		eps := map[string]int{}
		for k, v := range x.Endpoints {
			eps[k] = v
		}
		out = append(out, vhnlRNode{ID: x.ID, Status: string(x.Status), Endpoints: eps})
	}
	sort.Slice(out, func(i, j int) bool { return out[i].ID < out[j].ID })
	return out
}

func (n *vhnlNode) statusOf(id string) string {
	x, ok := n.srv.clusterState.Node(id)
	if !ok {
		return "absent"
	}
	return string(x.Status)
}

func (n *vhnlNode) gossipView(id string) vhnlGView {
	st, ok := n.srv.gossiper.NodeState(id)
	if !ok {
		return vhnlGView{}
	}
	v := vhnlGView{Known: true, Version: st.Version, Left: st.Left, Unreachable: st.Unreachable}
	for _, e := range st.Entries {
		v.Entries = append(v.Entries, vhnlEntry{Key: e.Key, Value: e.Value, Version: e.Version, Internal: e.Internal, Deleted: e.Deleted})
	}
	return v
}

func (n *vhnlNode) livePeers() []string {
	var out []string
	for _, m := range n.srv.gossiper.Nodes() {
		if m.ID != n.id && !m.Left && !m.Unreachable {
			out = append(out, m.ID)
		}
	}
	sort.Strings(out)
	return out
}

func (n *vhnlNode) localEndpoints() map[string]int {
	out := map[string]int{}
	for k, v := range n.srv.clusterState.LocalNode().Endpoints {
		out[k] = v
	}
	return out
}

// lookups samples LookupEndpoint (Go map iteration picks any candidate): distinct node ids returned, "" = not found.
func (n *vhnlNode) lookups(ep string, tries int) []string {
	seen := map[string]struct{}{}
	for i := 0; i < tries; i++ {
		x, ok := n.srv.clusterState.LookupEndpoint(ep)
		if ok {
			seen[x.ID] = struct{}{}
		} else {
			seen[""] = struct{}{}
		}
	}
	var out []string
	for k := range seen {
		out = append(out, k)
	}
	sort.Strings(out)
	return out
}

func vhnlDialable(addr string) bool {
	c, err := net.DialTimeout("tcp", addr, 500*time.Millisecond)
	if err != nil {
		return false
	}
	_ = c.Close()
	return true
}

// ---------------------------------------------------------------- front: one server URL -> the nodes, preferred first

type vhnlFront struct {
	ln      net.Listener
	order   []*vhnlNode
	mu      sync.Mutex
	backs   []string
	conns   []net.Conn
	drop    int // connections still to refuse
	dropped int
	clean   bool // refuse by accepting, reading the request and closing cleanly (EOF at the client) instead of resetting
}

func vhnlNewFront(order []*vhnlNode) *vhnlFront {
	ln, err := net.Listen("tcp", "127.0.0.1:0")
	if err != nil {
		panic("front listen: " + err.Error())
	}
	f := &vhnlFront{ln: ln, order: order}
	go f.serve()
	return f
}

func (f *vhnlFront) serve() {
	for {
		c, err := f.ln.Accept()
		if err != nil {
			return
		}
		go f.handle(c)
	}
}

func (f *vhnlFront) handle(c net.Conn) {
	f.mu.Lock()
	if f.drop > 0 {
		// the cluster is not reachable yet (what a client sees while a load balancer still points at the lost node):
		// the client's connect loop has to retry with backoff
		f.drop--
		f.dropped++
		clean := f.clean
		f.mu.Unlock()
		if clean {
			// read what the client sends (so that closing does not reset), then FIN
			_ = c.SetReadDeadline(time.Now().Add(150 * time.Millisecond))
			buf := make([]byte, 4096)
			for {
				if _, err := c.Read(buf); err != nil {
					break
				}
			}
			_ = c.Close()
			return
		}
		vhnlAbort(c)
		return
	}
	f.mu.Unlock()
	var b net.Conn
	var name string
	for _, n := range f.order {
		bc, err := net.DialTimeout("tcp", n.upstreamAddr(), 500*time.Millisecond)
		if err == nil {
			b, name = bc, n.id
			break
		}
	}
	if b == nil {
		_ = c.Close()
		return
	}
	f.mu.Lock()
	f.backs = append(f.backs, name)
	f.conns = append(f.conns, c, b)
	f.mu.Unlock()
	done := make(chan struct{}, 2)
	go func() { _, _ = io.Copy(b, c); done <- struct{}{} }()
	go func() { _, _ = io.Copy(c, b); done <- struct{}{} }()
	<-done
	_ = c.Close()
	_ = b.Close()
}

func (f *vhnlFront) backends() []string {
	f.mu.Lock()
	defer f.mu.Unlock()
	return append([]string(nil), f.backs...)
}

func (f *vhnlFront) close() {
	_ = f.ln.Close()
	f.mu.Lock()
	defer f.mu.Unlock()
	for _, c := range f.conns {
		_ = c.Close()
	}
}

// ---------------------------------------------------------------- client listeners

type vhnlListener struct {
	ep     string
	idx    int
	pref   *vhnlNode
	front  *vhnlFront
	ln     pikoclient.Listener
	ctx    context.Context
	cancel context.CancelFunc
	srv    *http.Server

	mu       sync.Mutex
	returned string // class of the first error Accept returned
	retAt    time.Time
	retCh    chan struct{}
}

type vhnlAcceptCtx interface {
	AcceptWithContext(ctx context.Context) (net.Conn, error)
}

func vhnlErrClass(err error) string {
	switch {
	case errors.Is(err, context.Canceled) && !strings.HasPrefix(err.Error(), "connect:"):
		return "ctx"
	case errors.Is(err, pikoclient.ErrClosed):
		return "closed"
	case strings.HasPrefix(err.Error(), "connect:"):
		return "connect"
	default:
		return "other:" + err.Error()
	}
}

// Accept is what http.Server.Serve calls: the REAL listener's AcceptWithContext, with the outcome recorded.
func (l *vhnlListener) Accept() (net.Conn, error) {
	c, err := l.ln.(vhnlAcceptCtx).AcceptWithContext(l.ctx)
	if err != nil {
		l.mu.Lock()
		if l.returned == "" {
			l.returned = vhnlErrClass(err)
			l.retAt = time.Now()
			close(l.retCh)
		}
		l.mu.Unlock()
	}
	return c, err
}
func (l *vhnlListener) Close() error   { return nil }
func (l *vhnlListener) Addr() net.Addr { return l.ln.Addr() }

func (l *vhnlListener) result() (string, time.Time) {
	l.mu.Lock()
	defer l.mu.Unlock()
	return l.returned, l.retAt
}

func vhnlStartListener(ep string, idx int, order []*vhnlNode, delay time.Duration) *vhnlListener {
	front := vhnlNewFront(order)
	up := &pikoclient.Upstream{
		URL:                 &url.URL{Scheme: "http", Host: front.ln.Addr().String()},
		MinReconnectBackoff: 20 * time.Millisecond,
		MaxReconnectBackoff: 200 * time.Millisecond,
	}
	dctx, dcancel := context.WithTimeout(context.Background(), 15*time.Second)
	defer dcancel()
	ln, err := up.Listen(dctx, ep)
	if err != nil {
		panic(fmt.Sprintf("listen %s/%d: %v", ep, idx, err))
	}
	ctx, cancel := context.WithCancel(context.Background())
	l := &vhnlListener{ep: ep, idx: idx, pref: order[0], front: front, ln: ln, ctx: ctx, cancel: cancel, retCh: make(chan struct{})}
	stamp := fmt.Sprintf("%s|%d", ep, idx)
	l.srv = &http.Server{Handler: http.HandlerFunc(func(w http.ResponseWriter, r *http.Request) {
		if r.Header.Get("x-vhnl-slow") != "" {
			time.Sleep(delay)
		}
		_, _ = io.WriteString(w, stamp)
	})}
	go func() { _ = l.srv.Serve(l) }()
	return l
}

// ---------------------------------------------------------------- requests

type vhnlRequester struct {
	client *http.Client
	mu     sync.Mutex
	reqs   []vhnlReq
	t0     time.Time // start of the loss (set before the loss; until then a provisional origin)
}

func vhnlNewRequester() *vhnlRequester {
	return &vhnlRequester{
		client: &http.Client{Timeout: 5 * time.Second, Transport: &http.Transport{DisableKeepAlives: true}},
		t0:     time.Now(),
	}
}

func (r *vhnlRequester) do(stage string, n *vhnlNode, ep string, slow bool) vhnlReq {
	req, _ := http.NewRequest(http.MethodGet, "http://"+n.proxyAddr()+"/vh", nil)
	req.Header.Set("x-piko-endpoint", ep)
	if slow {
		req.Header.Set("x-vhnl-slow", "1")
	}
	start := time.Now()
	out := vhnlReq{Stage: stage, Node: n.id, Ep: ep}
	resp, err := r.client.Do(req)
	if err != nil {
		out.Body = "error: " + err.Error()
	} else {
		b, _ := io.ReadAll(io.LimitReader(resp.Body, 256))
		_ = resp.Body.Close()
		out.Status = resp.StatusCode
		out.Body = string(b)
	}
	r.mu.Lock()
	out.Ms = start.Sub(r.t0).Milliseconds()
	r.reqs = append(r.reqs, out)
	r.mu.Unlock()
	return out
}

func vhnlGood(q vhnlReq) bool {
	return q.Status == 200 && strings.HasPrefix(q.Body, q.Ep+"|")
}

// ---------------------------------------------------------------- scenario

// vhnlUntilFast spins (no sleep) until f holds or the bound passes
func vhnlUntilFast(bound time.Duration, f func() bool) bool {
	end := time.Now().Add(bound)
	for time.Now().Before(end) {
		if f() {
			return true
		}
		runtime.Gosched()
	}
	return f()
}

func vhnlUntil(bound time.Duration, f func() bool) bool {
	deadline := time.Now().Add(bound)
	for {
		if f() {
			return true
		}
		if time.Now().After(deadline) {
			return false
		}
		time.Sleep(5 * time.Millisecond)
	}
}

func vhnlRun(sc vhnlScenario) (obs vhnlObs) {
	obs.ID = sc.ID
	obs.GraceMs = sc.GraceMs
	obs.ReregMs = -1
	bound := time.Duration(sc.BoundMs) * time.Millisecond
	var nodes []*vhnlNode
	var listeners []*vhnlListener
	var stopPoll, stopInflight chan struct{}
	var bg sync.WaitGroup
	defer func() {
		if r := recover(); r != nil {
			obs.Panic = fmt.Sprintf("panic: %v", r)
		}
		if stopInflight != nil {
			select {
			case <-stopInflight:
			default:
				close(stopInflight)
			}
		}
		if stopPoll != nil {
			select {
			case <-stopPoll:
			default:
				close(stopPoll)
			}
		}
		for _, l := range listeners {
			l.cancel()
			_ = l.ln.Shutdown()
			_ = l.srv.Close()
			l.front.close()
		}
		// stop the nodes (survivors gracefully; bounded)
		done := make(chan struct{})
		go func() {
			var wg sync.WaitGroup
			for _, n := range nodes {
				if n.down {
					continue
				}
				wg.Add(1)
				go func(n *vhnlNode) { defer wg.Done(); defer func() { _ = recover() }(); n.srv.Shutdown() }(n)
			}
			wg.Wait()
			close(done)
		}()
		select {
		case <-done:
		case <-time.After(30 * time.Second):
			obs.Notes = append(obs.Notes, "cleanup: survivors did not shut down in 30s")
		}
	}()

	// ---- cluster of three
	var gossipAddrs []string
	for i := 0; i < 3+sc.Extra; i++ {
		n := vhnlStartNode(fmt.Sprintf("n%d", i), append([]string(nil), gossipAddrs...), sc)
		nodes = append(nodes, n)
		gossipAddrs = append(gossipAddrs, n.gossipAddr())
		obs.Nodes = append(obs.Nodes, n.id)
	}
	lost := nodes[sc.Lose]
	obs.Lost = lost.id
	var survivors []*vhnlNode
	for _, n := range nodes {
		if n != lost {
			survivors = append(survivors, n)
		}
	}
	if !vhnlUntil(bound, func() bool {
		for _, a := range nodes {
			for _, b := range nodes {
				if a != b && a.statusOf(b.id) != "active" {
					return false
				}
			}
			if len(a.livePeers()) != len(nodes)-1 {
				return false
			}
		}
		return true
	}) {
		panic("cluster did not form")
	}

	// ---- a live cluster member whose gossip stream port accepts connections and then never answers (a frozen process, a
	// partition after the TCP handshake): whoever sends it a leave announcement waits for an acknowledgement that never comes
	if sc.Ghost == "stalled" {
		sln, err := net.Listen("tcp", "127.0.0.1:0")
		if err != nil {
			panic(err)
		}
		pln, err := net.ListenPacket("udp", sln.Addr().String())
		if err != nil {
			panic(err)
		}
		st := &vhnlStallListener{Listener: sln}
		gconf := &pkggossip.Config{BindAddr: sln.Addr().String(), AdvertiseAddr: sln.Addr().String(),
			Interval: time.Duration(sc.GossipMs) * time.Millisecond, MaxPacketSize: 1400}
		g := pkggossip.New("stalled", gconf, st, pln, vhnlNopWatcher{}, log.NewNopLogger())
		defer g.Close()
		if _, err := g.Join(append([]string(nil), gossipAddrs...)); err != nil {
			panic("stalled member could not join: " + err.Error())
		}
		if !vhnlUntil(bound, func() bool {
			for _, a := range nodes {
				ok := false
				for _, p := range a.livePeers() {
					if p == "stalled" {
						ok = true
					}
				}
				if !ok {
					return false
				}
			}
			return true
		}) {
			panic("the stalled member was not learned as live")
		}
		st.stall.Store(true)
		obs.Notes = append(obs.Notes, "a live gossip member whose stream port accepts and never answers")
	}

	// ---- an earlier departure that everybody still remembers
	if sc.Ghost != "" && sc.Ghost != "stalled" {
		ghost := vhnlStartNode("ghost", append([]string(nil), gossipAddrs...), sc)
		if !vhnlUntil(bound, func() bool {
			for _, a := range nodes {
				if a.statusOf("ghost") != "active" {
					return false
				}
			}
			return ghost.statusOf("n0") == "active" && ghost.statusOf("n1") == "active" && ghost.statusOf("n2") == "active"
		}) {
			panic("the fourth node did not join")
		}
		want := "left"
		if sc.Ghost == "crashed" {
			want = "unreachable"
			ghost.crash()
		} else {
			ghost.srv.Shutdown()
		}
		ghost.down = true
		if !vhnlUntil(bound, func() bool {
			for _, a := range nodes {
				if a.statusOf("ghost") != want {
					return false
				}
			}
			return true
		}) {
			panic("the departure of the fourth node was not noticed as " + want)
		}
		obs.Notes = append(obs.Notes, "ghost node "+want+" at every node before the loss")
	}

	// ---- listeners, each through its own front: preferred node first, then the others in ring order
	delay := time.Duration(sc.DelayMs) * time.Millisecond
	total := map[string]int{}
	for _, e := range sc.Endpoints {
		for i, p := range e.Listeners {
			order := []*vhnlNode{nodes[p%3], nodes[(p+1)%3], nodes[(p+2)%3]}
			listeners = append(listeners, vhnlStartListener(e.ID, i, order, delay))
			total[e.ID]++
		}
	}
	rq := vhnlNewRequester()
	// every endpoint answers from every node
	obs.PreOK = vhnlUntil(bound, func() bool {
		for _, n := range nodes {
			for _, e := range sc.Endpoints {
				if !vhnlGood(rq.do("pre", n, e.ID, false)) {
					return false
				}
			}
		}
		return true
	})
	if !obs.PreOK {
		panic("endpoints not served before the loss")
	}
	// every survivor's view of the node to lose is caught up with what that node advertises (so that the recorded
	// "before" state is a settled one)
	vhnlUntil(bound, func() bool {
		own := lost.gossipView(lost.id)
		for _, s := range survivors {
			if s.gossipView(lost.id).Version != own.Version {
				return false
			}
		}
		return true
	})

	// ---- record the "before" state
	obs.Survivors = make([]vhnlSurvivor, len(survivors))
	for i, s := range survivors {
		obs.Survivors[i] = vhnlSurvivor{Node: s.id, PreRouting: s.routing(), PreGossip: s.gossipView(lost.id)}
	}
	obs.Leaver.ConnsBefore = lost.localEndpoints()
	if resp, err := rq.client.Get("http://" + lost.adminAddr() + "/ready"); err == nil {
		obs.Leaver.ReadyBefore = resp.StatusCode
		_ = resp.Body.Close()
	}
	atLoss := make([]string, len(listeners))
	for i, l := range listeners {
		if b := l.front.backends(); len(b) > 0 {
			atLoss[i] = b[len(b)-1]
		}
		if atLoss[i] == lost.id {
			l.front.mu.Lock()
			l.front.drop = sc.DropReconnects
			l.front.clean = sc.DropClean
			l.front.mu.Unlock()
		}
	}

	// ---- status poller: status of the lost node in every survivor's table, every change recorded
	t0 := time.Now()
	rq.mu.Lock()
	for i := range rq.reqs {
		rq.reqs[i].Ms -= t0.Sub(rq.t0).Milliseconds()
	}
	rq.t0 = t0
	rq.mu.Unlock()
	stopPoll = make(chan struct{})
	var tlMu sync.Mutex
	timelines := make([][]vhnlStatusAt, len(survivors))
	for i, s := range survivors {
		timelines[i] = []vhnlStatusAt{{Ms: 0, Status: s.statusOf(lost.id)}}
	}
	bg.Add(1)
	go func() {
		defer bg.Done()
		for {
			select {
			case <-stopPoll:
				return
			default:
			}
			for i, s := range survivors {
				st := s.statusOf(lost.id)
				tlMu.Lock()
				if tl := timelines[i]; tl[len(tl)-1].Status != st {
					timelines[i] = append(tl, vhnlStatusAt{Ms: time.Since(t0).Milliseconds(), Status: st})
				}
				tlMu.Unlock()
			}
			time.Sleep(2 * time.Millisecond)
		}
	}()

	// ---- requests in flight across the loss
	stopInflight = make(chan struct{})
	if sc.Phase == "inflight" {
		for _, s := range survivors {
			for _, e := range sc.Endpoints {
				bg.Add(1)
				go func(s *vhnlNode, ep string) {
					defer bg.Done()
					for {
						select {
						case <-stopInflight:
							return
						default:
						}
						rq.do("inflight", s, ep, true)
					}
				}(s, e.ID)
			}
		}
		if sc.InflightAtLost {
			for _, e := range sc.Endpoints {
				onSurvivor := false
				for _, li := range e.Listeners {
					if li != sc.Lose {
						onSurvivor = true
					}
				}
				if !onSurvivor {
					continue
				}
				bg.Add(1)
				go func(ep string) {
					defer bg.Done()
					rq.do("inflight-at-lost", lost, ep, true)
				}(e.ID)
			}
			time.Sleep(100 * time.Millisecond)
		} else {
			time.Sleep(delay + 50*time.Millisecond) // let the first slow requests be on their way
		}
	}

	// ---- the loss
	obs.Leaver.LiveBefore = lost.livePeers()
	start := time.Now()
	obs.LossAtMs = start.Sub(t0).Milliseconds()
	switch sc.Mode {
	case "graceful":
		done := make(chan struct{})
		go func() { defer close(done); lost.srv.Shutdown() }()
		select {
		case <-done:
		case <-time.After(time.Duration(sc.GraceMs)*time.Millisecond + 30*time.Second):
			panic("Shutdown did not return within grace period + 30s")
		}
	case "crash":
		lost.crash()
	case "mid":
		// the node dies in the middle of its graceful shutdown
		done := make(chan struct{})
		go func() { defer close(done); defer func() { _ = recover() }(); lost.srv.Shutdown() }()
		if sc.MidMs < 0 {
			// "partial": the node dies as soon as the first survivor has been told of the departure (at most 2 s), so
			// that - with luck - the other survivor has to learn of it through gossip
			vhnlUntilFast(2*time.Second, func() bool {
				for _, s := range survivors {
					if s.statusOf(lost.id) == "left" {
						return true
					}
				}
				return false
			})
		} else {
			time.Sleep(time.Duration(sc.MidMs) * time.Millisecond)
		}
		lost.crash()
		select {
		case <-done:
		case <-time.After(time.Duration(sc.GraceMs)*time.Millisecond + 30*time.Second):
			obs.Notes = append(obs.Notes, "mid: Shutdown did not return after the crash")
		}
	default:
		panic("unknown mode " + sc.Mode)
	}
	obs.LossMs = time.Since(start).Milliseconds()
	lost.down = true
	// every "eventually" below shares one budget that starts at the loss
	deadline := start.Add(bound)
	remain := func() time.Duration {
		if d := time.Until(deadline); d > 2*time.Second {
			return d
		}
		return 2 * time.Second
	}
	gaveUp := func() bool {
		for _, l := range listeners {
			if r, _ := l.result(); r != "" {
				return true
			}
		}
		return false
	}
	// the instant the loss call returned
	for i, s := range survivors {
		obs.Survivors[i].Instant = s.statusOf(lost.id)
		obs.Survivors[i].InstantLk = map[string][]string{}
		for _, e := range sc.Endpoints {
			obs.Survivors[i].InstantLk[e.ID] = s.lookups(e.ID, 40)
		}
	}
	obs.Leaver.LiveAfter = lost.livePeers()

	// ---- the lost node afterwards (the handlers' deferred removal is asynchronous: poll for quiescence)
	qStart := time.Now()
	vhnlUntil(5*time.Second, func() bool {
		if len(lost.localEndpoints()) != 0 {
			return false
		}
		// ... and the subscriber (syncer.onLocalEndpointUpdate) has written the last removal into the gossip state
		for _, e := range lost.gossipView(lost.id).Entries {
			if strings.HasPrefix(e.Key, "endpoint:") && !e.Deleted {
				return false
			}
		}
		return true
	})
	obs.Leaver.QuiesceMs = time.Since(qStart).Milliseconds()
	obs.Leaver.EndpointsAfter = lost.localEndpoints()
	obs.Leaver.Own = lost.gossipView(lost.id)
	obs.Leaver.ProxyOpen = vhnlDialable(lost.proxyAddr())
	obs.Leaver.UpstreamOpen = vhnlDialable(lost.upstreamAddr())
	obs.Leaver.AdminOpen = vhnlDialable(lost.adminAddr())
	obs.Leaver.GossipOpen = vhnlDialable(lost.gossipAddr())

	// ---- survivors stop routing to it (graceful: every survivor ends up with "left", directly or through gossip)
	announced := obs.Leaver.Own.Left // without a published marker nobody can ever learn "left": do not wait for it
	vhnlUntil(remain(), func() bool {
		for _, s := range survivors {
			st := s.statusOf(lost.id)
			if st == "active" || (sc.Mode == "graceful" && announced && st != "left") {
				return false
			}
		}
		return true
	})

	// ---- listeners re-register on survivors
	if vhnlUntil(remain(), func() bool {
		if gaveUp() {
			return true // a listener whose Accept returned never registers again: no point in waiting
		}
		for ep, want := range total {
			got := 0
			for _, s := range survivors {
				got += s.localEndpoints()[ep]
			}
			if got != want {
				return false
			}
		}
		return true
	}) && !gaveUp() {
		obs.ReregMs = time.Since(t0).Milliseconds()
	}
	close(stopInflight)

	// ---- requests succeed again from every survivor
	for _, s := range survivors {
		for _, e := range sc.Endpoints {
			rec := vhnlRecovery{Node: s.id, Ep: e.ID, OkMs: -1}
			rb := remain()
			if obs.ReregMs < 0 && rb > 3*time.Second {
				rb = 3 * time.Second // the listeners are not all back: the scenario has failed already, do not wait it out
			}
			vhnlUntil(rb, func() bool {
				rec.Tries++
				q := rq.do("recovery", s, e.ID, false)
				if vhnlGood(q) {
					rec.OkMs = q.Ms
					return true
				}
				return false
			})
			obs.Recovery = append(obs.Recovery, rec)
		}
	}
	for k := 0; k < 5; k++ {
		for _, s := range survivors {
			for _, e := range sc.Endpoints {
				rq.do("post", s, e.ID, false)
			}
		}
	}

	// ---- final views
	close(stopPoll)
	obs.Registered = map[string]map[string]int{}
	for i, s := range survivors {
		obs.Registered[s.id] = s.localEndpoints()
		obs.Survivors[i].PostRouting = s.routing()
		obs.Survivors[i].PostGossip = s.gossipView(lost.id)
		obs.Survivors[i].PostLookup = map[string][]string{}
		for _, e := range sc.Endpoints {
			obs.Survivors[i].PostLookup[e.ID] = s.lookups(e.ID, 40)
		}
	}
	bg.Wait()
	tlMu.Lock()
	for i := range survivors {
		obs.Survivors[i].Timeline = timelines[i]
	}
	tlMu.Unlock()

	// ---- listeners: what happened across the loss, then the closing ops (the two returning branches of the decision)
	for i, l := range listeners {
		lo := vhnlListenerObs{Endpoint: l.ep, Idx: l.idx, Preferred: l.pref.id, AtLoss: atLoss[i], Closing: "shutdown"}
		if i < len(sc.Closing) && sc.Closing[i] != "" {
			lo.Closing = sc.Closing[i]
		}
		if ret, at := l.result(); ret != "" {
			lo.Returned = ret
			lo.ReturnedMs = at.Sub(t0).Milliseconds()
			lo.Final = ret
		} else {
			switch lo.Closing {
			case "ctx":
				lo.CtxCancelled = true
				l.cancel()
			default:
				lo.ClosedLocally = true
				_ = l.ln.Shutdown()
			}
			select {
			case <-l.retCh:
				lo.Final, _ = l.result()
			case <-time.After(10 * time.Second):
				lo.Final = "blocked"
			}
		}
		lo.Backends = l.front.backends()
		l.front.mu.Lock()
		lo.Refused = l.front.dropped
		l.front.mu.Unlock()
		obs.Listeners = append(obs.Listeners, lo)
	}
	rq.mu.Lock()
	obs.Requests = append([]vhnlReq(nil), rq.reqs...)
	rq.mu.Unlock()
	return obs
}

func vhnlGuarded(sc vhnlScenario) vhnlObs {
	ch := make(chan vhnlObs, 1)
	go func() { ch <- vhnlRun(sc) }()
	limit := time.Duration(6*sc.BoundMs+sc.GraceMs)*time.Millisecond + 90*time.Second
	select {
	case o := <-ch:
		return o
	case <-time.After(limit):
		return vhnlObs{ID: sc.ID, Panic: "timeout: scenario did not finish in " + limit.String()}
	}
}

func TestVerifHarness_NodeLoss(t *testing.T) {
	inPath := os.Getenv("VERIF_IN")
	if inPath == "" {
		t.Skip("VERIF_IN not set")
	}
	raw, err := os.ReadFile(inPath)
	if err != nil {
		t.Fatal(err)
	}
	var in struct {
		Scenarios []vhnlScenario `json:"scenarios"`
		Parallel  int            `json:"parallel"`
	}
	if err := json.Unmarshal(raw, &in); err != nil {
		t.Fatal(err)
	}
	out := struct {
		Scenarios []vhnlObs `json:"scenarios"`
		// the address a node advertises to its peers when only a bind address is configured: [bind, advertised or "error: ..."]
		Advertise [][2]string `json:"advertise"`
	}{Scenarios: make([]vhnlObs, len(in.Scenarios))}
	for _, bind := range []string{"127.0.0.1:8000", "[::1]:8000", "[fe80::1%lo]:7000", "10.1.2.3:1", "localhost:8001", "[2001:db8::5]:443"} {
		adv, err := advertiseAddrFromListenAddr(bind)
		if err != nil {
			adv = "error: " + err.Error()
		}
		out.Advertise = append(out.Advertise, [2]string{bind, adv})
	}
	par := in.Parallel
	if par < 1 {
		par = 1
	}
	sem := make(chan struct{}, par)
	var wg sync.WaitGroup
	for i := range in.Scenarios {
		wg.Add(1)
		sem <- struct{}{}
		go func(i int) {
			defer wg.Done()
			defer func() { <-sem }()
			out.Scenarios[i] = vhnlGuarded(in.Scenarios[i])
		}(i)
	}
	wg.Wait()
	enc, err := json.Marshal(out)
	if err != nil {
		t.Fatal(err)
	}
	if err := os.WriteFile(os.Getenv("VERIF_OUT"), enc, 0o644); err != nil {
		t.Fatal(err)
	}
}

// a stream listener that, once told to stall, parks every accepted connection: the peer is connected and hears nothing
type vhnlStallListener struct {
	net.Listener
	stall  atomic.Bool
	mu     sync.Mutex
	parked []net.Conn
}

func (l *vhnlStallListener) Accept() (net.Conn, error) {
	for {
		c, err := l.Listener.Accept()
		if err != nil {
			return nil, err
		}
		if !l.stall.Load() {
			return c, nil
		}
		l.mu.Lock()
		l.parked = append(l.parked, c)
		l.mu.Unlock()
	}
}

type vhnlNopWatcher struct{}

func (vhnlNopWatcher) OnJoin(string)                   {}
func (vhnlNopWatcher) OnLeave(string)                  {}
func (vhnlNopWatcher) OnReachable(string)              {}
func (vhnlNopWatcher) OnUnreachable(string)            {}
func (vhnlNopWatcher) OnUpsertKey(string, string, string) {}
func (vhnlNopWatcher) OnDeleteKey(string, string)      {}
func (vhnlNopWatcher) OnExpired(string)                {}
