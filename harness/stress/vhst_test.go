//go:build verif

package upstream

// C20 stress harness: several REAL nodes (cluster.State + LoadBalancedManager + server gossip with real
// loopback TCP/UDP listeners and the real schedulers at a short interval), hammered concurrently with
// connects/disconnects, selects, status reads, rebalances, membership changes (join / leave / crash) and
// garbage packets. Every call runs under a watchdog; a call that does not return in time, a panic, or a
// race report (the binary is built with -race) is a violation. After the workers stop the three records of
// the local registrations (manager, routing table, published gossip state) must agree exactly.

import (
	"context"
	"encoding/json"
	"fmt"
	"math/rand"
	"net"
	"os"
	"runtime"
	"sort"
	"strconv"
	"strings"
	"sync"
	"sync/atomic"
	"testing"
	"time"

	"github.com/andydunstall/yamux"

	pkggossip "github.com/andydunstall/piko/pkg/gossip"
	"github.com/andydunstall/piko/pkg/log"
	"github.com/andydunstall/piko/server/cluster"
	"github.com/andydunstall/piko/server/config"
	servergossip "github.com/andydunstall/piko/server/gossip"
)

type vhstInput struct {
	Seed        int64 `json:"seed"`
	DurationMs  int   `json:"duration_ms"`
	WatchdogMs  int   `json:"watchdog_ms"`
	IntervalMs  int   `json:"interval_ms"`
	Nodes       int   `json:"nodes"`
	Endpoints   int   `json:"endpoints"`
	ConnWorkers int   `json:"conn_workers"`
	ReadWorkers int   `json:"read_workers"`
	MaxHold     int   `json:"max_hold"`
	Membership  bool  `json:"membership"`
	ExpiryWait  bool  `json:"expiry_wait"` // keep running until a left node has expired (> 1 minute)
	ConvergeMs  int   `json:"converge_ms"`
}

type vhstTimeout struct {
	Worker    string `json:"worker"`
	Op        string `json:"op"`
	ElapsedMs int64  `json:"elapsed_ms"`
}

type vhstNodeCheck struct {
	Node      string         `json:"node"`
	Registry  map[string]int `json:"registry"`
	Routing   map[string]int `json:"routing"`
	Published map[string]int `json:"published"`
	Ledger    map[string]int `json:"ledger"`
	Equal     bool           `json:"equal"`
	Diff      []string       `json:"diff,omitempty"`
}

type vhstOutput struct {
	Ops            map[string]int64 `json:"ops"`
	Timeouts       []vhstTimeout    `json:"timeouts"`
	Panics         []string         `json:"panics"`
	Goroutines     string           `json:"goroutines,omitempty"`
	Consistency    []vhstNodeCheck  `json:"consistency"`
	Converged      bool             `json:"remote_view_converged"`
	ConvergeWaitMs int64            `json:"remote_view_wait_ms"`
	StatusesSeen   []string         `json:"statuses_seen"`
	Compactions    int              `json:"compactions_observed"`
	NodesRemoved   int              `json:"expired_nodes_observed"`
	MaxOpMs        map[string]int64 `json:"max_op_ms"`
	ElapsedMs      int64            `json:"elapsed_ms"`
	SetupError     string           `json:"setup_error,omitempty"`
	Completed      bool             `json:"completed"`
}

type vhstUpstream struct {
	id string
	n  int
}

func (u *vhstUpstream) EndpointID() string      { return u.id }
func (u *vhstUpstream) Dial() (net.Conn, error) { return nil, fmt.Errorf("vhst: not dialable") }
func (u *vhstUpstream) Forward() bool           { return false }

type vhstNode struct {
	id      string
	addr    string
	state   *cluster.State
	manager *LoadBalancedManager
	gossip  *servergossip.Gossip
	server  *Server
	closed  atomic.Bool
}

type vhstWorker struct {
	name   string
	op     atomic.Value // string
	since  atomic.Int64 // unix nanos, 0 = idle
	counts map[string]int64
	maxNs  map[string]int64
	ledger map[string]int // registrations this worker holds on its node, by endpoint
	node   *vhstNode
}

type vhstRun struct {
	in       vhstInput
	mu       sync.Mutex
	workers  []*vhstWorker
	panics   []string
	statuses map[string]struct{}
	compacts map[string]struct{}
	removed  atomic.Int64
	stop     atomic.Bool
	out      *vhstOutput
	outPath  string
	wrote    atomic.Bool
}

func (r *vhstRun) newWorker(name string, n *vhstNode) *vhstWorker {
	w := &vhstWorker{name: name, counts: map[string]int64{}, maxNs: map[string]int64{}, ledger: map[string]int{}, node: n}
	w.op.Store("")
	r.mu.Lock()
	r.workers = append(r.workers, w)
	r.mu.Unlock()
	return w
}

var vhstNetOps = map[string]bool{"join": true, "extra-join": true, "extra-leave": true, "extra-close": true, "close": true,
	"new-node": true, "extra-new-node": true, "wait-workers": true}

// do runs one call of the real code under the watchdog and with panic capture
func (r *vhstRun) do(w *vhstWorker, op string, f func()) {
	w.op.Store(op)
	start := time.Now()
	since := start.UnixNano()
	if vhstNetOps[op] {
		// these calls legitimately wait for the network up to the gossip stream timeout (10 s): they get
		// 1.5 watchdog periods more before they count as stuck
		since += int64(r.in.WatchdogMs) * 3 / 2 * int64(time.Millisecond)
	}
	w.since.Store(since)
	defer func() {
		w.since.Store(0)
		if p := recover(); p != nil {
			buf := make([]byte, 1<<16)
			buf = buf[:runtime.Stack(buf, false)]
			r.mu.Lock()
			r.panics = append(r.panics, fmt.Sprintf("%s: %s: panic: %v\n%s", w.name, op, p, buf))
			r.mu.Unlock()
		}
		d := time.Since(start).Nanoseconds()
		w.counts[op]++
		if d > w.maxNs[op] {
			w.maxNs[op] = d
		}
	}()
	f()
}

func (r *vhstRun) write() {
	if !r.wrote.CompareAndSwap(false, true) {
		return
	}
	b, _ := json.Marshal(r.out)
	_ = os.WriteFile(r.outPath, b, 0o644)
}

func (r *vhstRun) watchdog(limit time.Duration, done chan struct{}) {
	t := time.NewTicker(50 * time.Millisecond)
	defer t.Stop()
	for {
		select {
		case <-done:
			return
		case <-t.C:
		}
		now := time.Now().UnixNano()
		r.mu.Lock()
		ws := append([]*vhstWorker(nil), r.workers...)
		r.mu.Unlock()
		var late []vhstTimeout
		for _, w := range ws {
			s := w.since.Load()
			if s != 0 && time.Duration(now-s) > limit {
				late = append(late, vhstTimeout{Worker: w.name, Op: w.op.Load().(string), ElapsedMs: (now - s) / 1e6})
			}
		}
		if len(late) > 0 {
			buf := make([]byte, 8<<20)
			buf = buf[:runtime.Stack(buf, true)]
			// a separate object: the main goroutine may be filling r.out at this moment
			r.mu.Lock()
			o := &vhstOutput{Timeouts: late, Goroutines: string(buf), Panics: append([]string(nil), r.panics...)}
			r.mu.Unlock()
			if r.wrote.CompareAndSwap(false, true) {
				b, _ := json.Marshal(o)
				_ = os.WriteFile(r.outPath, b, 0o644)
			}
			fmt.Fprintf(os.Stderr, "VHST-WATCHDOG: %d call(s) did not return within %s: %+v\n", len(late), limit, late)
			os.Exit(0) // blocked goroutines never finish; the verdict is in the output file
		}
	}
}

func vhstCtx(d time.Duration) context.Context {
	ctx, cancel := context.WithCancel(context.Background())
	time.AfterFunc(d, cancel)
	return ctx
}

func vhstListen() (net.Listener, net.PacketConn, error) {
	var lastErr error
	for i := 0; i < 50; i++ {
		ln, err := net.Listen("tcp", "127.0.0.1:0")
		if err != nil {
			lastErr = err
			continue
		}
		pc, err := net.ListenUDP("udp", &net.UDPAddr{IP: net.IPv4(127, 0, 0, 1), Port: ln.Addr().(*net.TCPAddr).Port})
		if err != nil {
			_ = ln.Close()
			lastErr = err
			continue
		}
		return ln, pc, nil
	}
	return nil, nil, lastErr
}

func vhstNewNode(id string, intervalMs int) (*vhstNode, error) {
	ln, pc, err := vhstListen()
	if err != nil {
		return nil, err
	}
	logger := log.NewNopLogger()
	st := cluster.NewState(&cluster.Node{ID: id, ProxyAddr: "10.0.0.1:8000", AdminAddr: "10.0.0.1:8002"}, logger)
	m := NewLoadBalancedManager(st, nil)
	conf := &pkggossip.Config{BindAddr: ln.Addr().String(), AdvertiseAddr: ln.Addr().String(),
		Interval: time.Duration(intervalMs) * time.Millisecond, MaxPacketSize: 1400}
	g := servergossip.NewGossip(st, ln, pc, conf, logger)
	var uc config.UpstreamConfig
	// never sheds: the sessions of this harness are placeholders that must not be closed, so Rebalance stops
	// after cluster.Nodes() and openSessions() (AvgConns is called by the readers directly)
	uc.Rebalance.Threshold = 1e9
	uc.Rebalance.MinConns = 1 << 30
	uc.Rebalance.ShedRate = 0.01
	srv := NewServer(m, nil, nil, st, uc, logger)
	return &vhstNode{id: id, addr: ln.Addr().String(), state: st, manager: m, gossip: g, server: srv}, nil
}

func vhstPublished(n *vhstNode) map[string]int {
	res := map[string]int{}
	ns, ok := n.gossip.NodeState(n.id)
	if !ok {
		return res
	}
	for _, e := range ns.Entries {
		if e.Internal || e.Deleted || !strings.HasPrefix(e.Key, "endpoint:") {
			continue
		}
		v, err := strconv.Atoi(e.Value)
		if err != nil {
			v = -1
		}
		res[strings.TrimPrefix(e.Key, "endpoint:")] = v
	}
	return res
}

func vhstCopy(m map[string]int) map[string]int {
	res := map[string]int{}
	for k, v := range m {
		if v != 0 {
			res[k] = v
		}
	}
	return res
}

func vhstDiff(name string, a, b map[string]int) []string {
	var d []string
	keys := map[string]struct{}{}
	for k := range a {
		keys[k] = struct{}{}
	}
	for k := range b {
		keys[k] = struct{}{}
	}
	for k := range keys {
		if a[k] != b[k] {
			d = append(d, fmt.Sprintf("%s: endpoint %s: %d vs %d", name, k, a[k], b[k]))
		}
	}
	sort.Strings(d)
	if len(d) > 10 {
		d = append(d[:10], fmt.Sprintf("... %d more", len(d)-10))
	}
	return d
}

func TestVerifHarness_Stress(t *testing.T) {
	inPath, outPath := os.Getenv("VERIF_IN"), os.Getenv("VERIF_OUT")
	if inPath == "" {
		t.Skip("VERIF_IN not set")
	}
	var in vhstInput
	b, err := os.ReadFile(inPath)
	if err != nil {
		t.Fatal(err)
	}
	if err := json.Unmarshal(b, &in); err != nil {
		t.Fatal(err)
	}
	if in.Nodes < 2 {
		in.Nodes = 2
	}
	if in.IntervalMs < 2 {
		in.IntervalMs = 20
	}
	t0 := time.Now()
	out := &vhstOutput{Ops: map[string]int64{}, MaxOpMs: map[string]int64{}}
	r := &vhstRun{in: in, out: out, outPath: outPath, statuses: map[string]struct{}{}, compacts: map[string]struct{}{}}
	limit := time.Duration(in.WatchdogMs) * time.Millisecond
	wdDone := make(chan struct{})
	go r.watchdog(limit, wdDone)

	// ---- the permanent nodes
	setup := r.newWorker("setup", nil)
	var nodes []*vhstNode
	for i := 0; i < in.Nodes; i++ {
		var n *vhstNode
		r.do(setup, "new-node", func() {
			var e error
			n, e = vhstNewNode(fmt.Sprintf("node-%d", i), in.IntervalMs)
			if e != nil {
				out.SetupError = e.Error()
			}
		})
		if n == nil {
			r.write()
			t.Fatalf("setup: %s", out.SetupError)
		}
		nodes = append(nodes, n)
		if i > 0 {
			r.do(setup, "join", func() {
				if _, e := n.gossip.JoinOnBoot([]string{nodes[0].addr}); e != nil {
					out.SetupError = "join: " + e.Error()
				}
			})
		}
	}

	var wg sync.WaitGroup
	endpoint := func(rng *rand.Rand) string { return fmt.Sprintf("ep-%d", rng.Intn(in.Endpoints)) }
	// how many connections a connect/disconnect worker keeps at least / at most (drain runs: 0 / 1, so that a node's
	// endpoint map is empty much of the time)
	minHold, maxHold := 3, 40
	if in.MaxHold > 0 {
		minHold, maxHold = 0, in.MaxHold
	}

	// ---- connect / disconnect workers
	for ni, n := range nodes {
		nw := in.ConnWorkers
		if ni > 0 {
			nw = (in.ConnWorkers + 1) / 2
		}
		for k := 0; k < nw; k++ {
			w := r.newWorker(fmt.Sprintf("conn-%s-%d", n.id, k), n)
			rng := rand.New(rand.NewSource(in.Seed*1000 + int64(ni*100+k)))
			wg.Add(1)
			go func() {
				defer wg.Done()
				var mine []*vhstUpstream
				seq := 0
				for !r.stop.Load() {
					x := rng.Intn(100)
					switch {
					case len(mine) < minHold || (x < 50 && len(mine) < maxHold):
						seq++
						u := &vhstUpstream{id: endpoint(rng), n: seq}
						r.do(w, "AddConn", func() { n.manager.AddConn(u) })
						mine = append(mine, u)
						w.ledger[u.id]++
					case x < 92 && len(mine) > 0:
						i := rng.Intn(len(mine))
						u := mine[i]
						mine = append(mine[:i], mine[i+1:]...)
						r.do(w, "RemoveConn", func() { n.manager.RemoveConn(u) })
						w.ledger[u.id]--
						if x < 60 { // proxy removed it on ErrGone, then the handler removes it again
							r.do(w, "RemoveConn-again", func() { n.manager.RemoveConn(u) })
						}
					default:
						u := &vhstUpstream{id: endpoint(rng), n: -1}
						r.do(w, "RemoveConn-unknown", func() { n.manager.RemoveConn(u) })
					}
				}
				// drain about half of what is left so that the final state is not trivial
				for i, u := range mine {
					if i%2 == 0 {
						r.do(w, "RemoveConn", func() { n.manager.RemoveConn(u) })
						w.ledger[u.id]--
					}
				}
			}()
		}
	}

	// ---- readers: routing, status, rebalance, sessions
	for ni, n := range nodes {
		for k := 0; k < in.ReadWorkers; k++ {
			w := r.newWorker(fmt.Sprintf("read-%s-%d", n.id, k), n)
			rng := rand.New(rand.NewSource(in.Seed*7777 + int64(ni*100+k)))
			wg.Add(1)
			go func() {
				defer wg.Done()
				var sessions []*yamux.Session
				lastStatus := map[string]string{}
				for !r.stop.Load() {
					switch rng.Intn(14) {
					case 0, 1, 2:
						r.do(w, "Select", func() { n.manager.Select(endpoint(rng), rng.Intn(2) == 0) })
					case 3:
						r.do(w, "manager.Endpoints", func() { _ = n.manager.Endpoints() })
					case 4:
						var ns []*cluster.Node
						r.do(w, "cluster.Nodes", func() { ns = n.state.Nodes() })
						seen := map[string]bool{}
						for _, x := range ns {
							// what the status API does with a snapshot: it walks the endpoints (JSON encoding) without any lock
							for _, cnt := range x.Endpoints {
								_ = cnt
							}
							seen[x.ID] = true
							if lastStatus[x.ID] != string(x.Status) {
								lastStatus[x.ID] = string(x.Status)
								r.mu.Lock()
								r.statuses[string(x.Status)] = struct{}{}
								r.mu.Unlock()
							}
						}
						for id := range lastStatus {
							if !seen[id] {
								delete(lastStatus, id)
								r.removed.Add(1)
							}
						}
					case 5:
						var ln *cluster.Node
						r.do(w, "cluster.LocalNode", func() { ln = n.state.LocalNode() })
						if ln != nil {
							time.Sleep(time.Duration(rng.Intn(200)) * time.Microsecond) // the snapshot is in use for a while
							for _, cnt := range ln.Endpoints {
								_ = cnt
							}
						}
					case 6:
						r.do(w, "cluster.NodesMetadata+Node", func() {
							for _, md := range n.state.NodesMetadata() {
								n.state.Node(md.ID)
							}
						})
					case 7:
						r.do(w, "cluster.LookupEndpoint+AvgConns", func() {
							n.state.LookupEndpoint(endpoint(rng))
							_ = n.state.AvgConns()
						})
					case 8:
						r.do(w, "gossip.Nodes", func() { _ = n.gossip.Nodes() })
					case 9:
						var ns *pkggossip.NodeState
						r.do(w, "gossip.NodeState", func() { ns, _ = n.gossip.NodeState(n.id) })
						if ns != nil {
							for _, e := range ns.Entries {
								if e.Internal && e.Key == "_internal:compact" {
									r.mu.Lock()
									r.compacts[n.id+"/"+e.Value] = struct{}{}
									r.mu.Unlock()
								}
							}
						}
					case 10:
						r.do(w, "gossip.NodeState-remote", func() {
							for _, md := range n.gossip.Nodes() {
								n.gossip.NodeState(md.ID)
							}
						})
					case 11:
						r.do(w, "Server.Rebalance", func() { n.server.Rebalance() })
					case 12:
						s := new(yamux.Session)
						sessions = append(sessions, s)
						r.do(w, "Server.addSession", func() { n.server.addSession(s) })
					case 13:
						if len(sessions) > 0 {
							s := sessions[0]
							sessions = sessions[1:]
							r.do(w, "Server.removeSession", func() { n.server.removeSession(s); _ = n.server.openSessions() })
						}
					}
				}
			}()
		}
	}

	// ---- garbage on the gossip sockets of node 0
	{
		w := r.newWorker("noise", nodes[0])
		rng := rand.New(rand.NewSource(in.Seed + 99))
		wg.Add(1)
		go func() {
			defer wg.Done()
			for !r.stop.Load() {
				r.do(w, "garbage-udp", func() {
					c, e := net.Dial("udp", nodes[0].addr)
					if e != nil {
						return
					}
					defer c.Close()
					buf := make([]byte, 1+rng.Intn(200))
					rng.Read(buf)
					buf[0] = byte(rng.Intn(4))
					if len(buf) > 1 {
						buf[1] = 1
					}
					_, _ = c.Write(buf)
				})
				time.Sleep(time.Duration(1+rng.Intn(5)) * time.Millisecond)
			}
		}()
	}

	// ---- membership: extra nodes join, advertise endpoints, then leave gracefully or crash
	var extraMu sync.Mutex
	var extras []*vhstNode
	if in.Membership {
		w := r.newWorker("membership", nil)
		rng := rand.New(rand.NewSource(in.Seed + 4242))
		wg.Add(1)
		go func() {
			defer wg.Done()
			k := 0
			for !r.stop.Load() {
				k++
				var n *vhstNode
				r.do(w, "extra-new-node", func() { n, _ = vhstNewNode(fmt.Sprintf("extra-%d", k), in.IntervalMs) })
				if n == nil {
					time.Sleep(50 * time.Millisecond)
					continue
				}
				extraMu.Lock()
				extras = append(extras, n)
				extraMu.Unlock()
				r.do(w, "extra-join", func() { _, _ = n.gossip.JoinOnBoot([]string{nodes[rng.Intn(len(nodes))].addr}) })
				for i := 0; i < 5; i++ {
					u := &vhstUpstream{id: endpoint(rng), n: i}
					r.do(w, "extra-AddConn", func() { n.manager.AddConn(u) })
				}
				time.Sleep(time.Duration(10+rng.Intn(30)) * time.Duration(in.IntervalMs) * time.Millisecond)
				if k%2 == 1 {
					r.do(w, "extra-leave", func() { _ = n.gossip.Leave(vhstCtx(limit / 2)) })
				}
				r.do(w, "extra-close", func() { _ = n.gossip.Close() })
				n.closed.Store(true)
				time.Sleep(time.Duration(5+rng.Intn(20)) * time.Duration(in.IntervalMs) * time.Millisecond)
			}
		}()
	}

	// ---- run
	deadline := time.Duration(in.DurationMs) * time.Millisecond
	for time.Since(t0) < deadline {
		time.Sleep(20 * time.Millisecond)
		if in.ExpiryWait && r.removed.Load() > 0 && time.Since(t0) > deadline/2 {
			break
		}
	}
	r.stop.Store(true)
	fin := r.newWorker("quiesce", nil)
	r.do(fin, "wait-workers", func() { wg.Wait() })

	// ---- quiescence: the three records of every permanent node agree
	for _, n := range nodes {
		var reg, rt, pub map[string]int
		r.do(fin, "final-reads", func() {
			reg = vhstCopy(n.manager.Endpoints())
			rt = vhstCopy(n.state.LocalNode().Endpoints)
			pub = vhstPublished(n)
		})
		ledger := map[string]int{}
		for _, w := range r.workers {
			if w.node == n {
				for k, v := range w.ledger {
					ledger[k] += v
				}
			}
		}
		ledger = vhstCopy(ledger)
		chk := vhstNodeCheck{Node: n.id, Registry: reg, Routing: rt, Published: pub, Ledger: ledger}
		chk.Diff = append(chk.Diff, vhstDiff("registry/routing", reg, rt)...)
		chk.Diff = append(chk.Diff, vhstDiff("routing/published", rt, pub)...)
		chk.Diff = append(chk.Diff, vhstDiff("registry/harness-ledger", reg, ledger)...)
		chk.Equal = len(chk.Diff) == 0
		out.Consistency = append(out.Consistency, chk)
	}

	// ---- informational: the other nodes' routing tables catch up with node 0 (C04 territory)
	cw := time.Now()
	want := vhstCopy(nodes[0].state.LocalNode().Endpoints)
	for time.Since(cw) < time.Duration(in.ConvergeMs)*time.Millisecond {
		ok := true
		for _, n := range nodes[1:] {
			var v *cluster.Node
			r.do(fin, "converge-read", func() { v, _ = n.state.Node(nodes[0].id) })
			if v == nil || len(vhstDiff("", want, vhstCopy(v.Endpoints))) > 0 {
				ok = false
			}
		}
		if ok {
			out.Converged = true
			break
		}
		time.Sleep(20 * time.Millisecond)
	}
	out.ConvergeWaitMs = time.Since(cw).Milliseconds()

	// ---- shutdown
	for _, n := range nodes {
		r.do(fin, "close", func() { _ = n.gossip.Close() })
	}
	extraMu.Lock()
	for _, n := range extras {
		if !n.closed.Load() {
			r.do(fin, "close", func() { _ = n.gossip.Close() })
		}
	}
	extraMu.Unlock()
	close(wdDone)

	r.mu.Lock()
	for _, w := range r.workers {
		for k, v := range w.counts {
			out.Ops[k] += v
		}
		for k, v := range w.maxNs {
			if v/1e6 > out.MaxOpMs[k] {
				out.MaxOpMs[k] = v / 1e6
			}
		}
	}
	for s := range r.statuses {
		out.StatusesSeen = append(out.StatusesSeen, s)
	}
	sort.Strings(out.StatusesSeen)
	out.Compactions = len(r.compacts)
	out.NodesRemoved = int(r.removed.Load())
	out.Panics = append([]string(nil), r.panics...)
	r.mu.Unlock()
	out.ElapsedMs = time.Since(t0).Milliseconds()
	out.Completed = true
	r.write()
}
