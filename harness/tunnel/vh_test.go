//go:build verif

// System harness for property C07 (monitor only). Injected into /repo/tests/server with
// `go test -overlay` (never copied into /repo). Starts in-process Piko nodes the way the project's own
// system tests do (pikotest/cluster) and pushes byte streams through the real tunnel:
//
//	entry:  client.Dialer            | forward.Forwarder (TCP in -> Dialer)
//	nodes:  one node                 | node B (proxy port) forwarding to node A (upstream port)
//	exit:   client.Listener (Accept) | agent/tcpproxy.Server -> TCP upstream | client ListenAndForward -> TCP upstream
//
// For every connection it records what each end received, whether the far end saw end-of-stream after
// a close, and whether the goroutines of the tunnel went away again.
package server

import (
	"crypto/sha256"
	"sort"
	"bytes"
	"context"
	"encoding/hex"
	"encoding/json"
	"errors"
	"fmt"
	"io"
	"net"
	"net/url"
	"os"
	"runtime"
	"runtime/pprof"
	"sync"
	"testing"
	"time"

	agentconfig "github.com/andydunstall/piko/agent/config"
	"github.com/andydunstall/piko/agent/tcpproxy"
	"github.com/andydunstall/piko/client"
	"github.com/andydunstall/piko/forward"
	"github.com/andydunstall/piko/pikotest/cluster"
	"github.com/andydunstall/piko/pkg/log"
)

type vhtunConn struct {
	Up     []int  `json:"up"`      // write chunk sizes client -> upstream
	Down   []int  `json:"down"`    // write chunk sizes upstream -> client
	RbufUp []int  `json:"rbuf_up"` // read buffer sizes at the upstream end
	RbufDn []int  `json:"rbuf_down"`
	Closer string `json:"closer"` // client | upstream
	Mode   string `json:"mode"`   // full: both directions, close after both streams arrived; half: closer writes then closes at once
	Seed   int    `json:"seed"`
	// PauseMs (mode half): the reading end stops after its first KiB for this long - the writer has long closed by then - and
	// only then reads on to the end of the stream
	PauseMs int `json:"pause_ms"`
	// LingerMs (mode half, closer client): the upstream end does NOT close when it sees end-of-stream - it keeps writing a byte
	// every 10 ms, like a publisher that never reads. The tunnel is gone (the client closed it), so within this time a write
	// has to fail: the leg to the service was released, not merely half-closed
	LingerMs int `json:"linger_ms"`
}

type vhtunScenario struct {
	ID    string      `json:"id"`
	Nodes int         `json:"nodes"`
	Entry string      `json:"entry"` // dialer | forwarder
	Exit  string      `json:"exit"`  // listener | agent | clientfwd
	Conns []vhtunConn `json:"conns"`
	// EchoBurst > 0: after the scripted connections, that many clients connect AT THE SAME MOMENT; the upstream end echoes every
	// connection; every client must read back exactly what it wrote (a connection handed to the wrong goroutine, two copiers on
	// one stream, a stream left unserved all show)
	EchoBurst int `json:"echo_burst"`
	// Endpoint overrides the endpoint id (ids with characters a URL gives a meaning to: ? # % / space); Decoys are further
	// endpoints with a listener each - what a careless parser would fold the id into - whose listeners must never see a
	// connection
	Endpoint string   `json:"endpoint"`
	Decoys   []string `json:"decoys"`
}

type vhtunInput struct {
	Scenarios []vhtunScenario `json:"scenarios"`
}

type vhtunConnOut struct {
	Error     string `json:"error"`   // setup / write problems (empty = none)
	SentUp    string `json:"sent_up"` // hex
	SentDown  string `json:"sent_down"`
	GotUp     string `json:"got_up"`     // what the upstream end received
	GotDown   string `json:"got_down"`   // what the client end received
	ZeroReads int    `json:"zero_reads"` // Read calls that returned (0, nil)
	EOFSeen   bool   `json:"eof_seen"`   // the end that did not close observed end-of-stream
	EOFClass  string `json:"eof_class"`
	EOFMillis int64  `json:"eof_ms"`
	LingerMs     int64 `json:"linger_ms"`      // how long the lingering upstream end could still write after the end-of-stream
	LingerClosed bool  `json:"linger_closed"`  // a write failed within the bound
}

type vhtunScenarioOut struct {
	ID         string         `json:"id"`
	Panic      string         `json:"panic"`
	Conns      []vhtunConnOut `json:"conns"`
	Baseline   int            `json:"baseline"` // all goroutines (informational)
	Final      int            `json:"final"`
	LegsBase   int            `json:"legs_base"` // goroutines of tunnelled connections before / after
	LegsFinal  int            `json:"legs_final"`
	Released   bool           `json:"released"`
	BurstBad   []string       `json:"burst_bad,omitempty"` // what went wrong in the echo burst, per failing client
	BurstN     int            `json:"burst_n,omitempty"`
	DecoyHits  []string       `json:"decoy_hits,omitempty"` // decoy endpoints whose listener accepted a connection
	Failed     bool           `json:"failed"` // a connection already failed; later checks were skipped
	Goroutines string         `json:"goroutines,omitempty"`
}

type vhtunOutput struct {
	Scenarios []vhtunScenarioOut `json:"scenarios"`
}

func vhtunByte(seed int, i int) byte {
	x := (uint32(i) + uint32(seed)*0x9E3779B1) * 0x85EBCA6B
	x ^= x >> 15
	x *= 0xC2B2AE35
	x ^= x >> 16
	return byte(x)
}

func vhtunFill(seed, n int) []byte {
	b := make([]byte, n)
	for i := range b {
		b[i] = vhtunByte(seed, i)
	}
	return b
}

func vhtunSum(xs []int) int {
	s := 0
	for _, x := range xs {
		s += x
	}
	return s
}

func vhtunEOFClass(err error) string {
	switch {
	case err == nil:
		return "nil"
	case err == io.EOF:
		return "eof"
	case errors.Is(err, net.ErrClosed):
		return "closed"
	}
	var ne net.Error
	if errors.As(err, &ne) && ne.Timeout() {
		return "timeout"
	}
	return "reset:" + err.Error()
}

// write the stream in the given chunks
func vhtunWrite(c net.Conn, data []byte, chunks []int) error {
	off := 0
	for _, n := range chunks {
		_ = c.SetWriteDeadline(time.Now().Add(30 * time.Second))
		m, err := c.Write(data[off : off+n])
		if err != nil {
			return fmt.Errorf("write at %d: %w", off, err)
		}
		if m != n {
			return fmt.Errorf("short write at %d: %d of %d", off, m, n)
		}
		off += n
	}
	return nil
}

// read until want bytes arrived (want >= 0) or until an error (want < 0)
func vhtunRead(c net.Conn, want int, bufs []int, zero *int) ([]byte, error) {
	if len(bufs) == 0 {
		bufs = []int{4096}
	}
	var got []byte
	for i := 0; want < 0 || len(got) < want; i++ {
		buf := make([]byte, bufs[i%len(bufs)])
		_ = c.SetReadDeadline(time.Now().Add(12 * time.Second))
		n, err := c.Read(buf)
		got = append(got, buf[:n]...)
		if err != nil {
			return got, err
		}
		if n == 0 {
			*zero++
			if *zero > 1000 {
				return got, errors.New("too many (0, nil) reads")
			}
		}
	}
	return got, nil
}

type vhtunEnv struct {
	decoyMu   sync.Mutex
	decoyHits []string

	nodes    []*cluster.Node
	dial     func() (net.Conn, error) // the client end
	accept   func() (net.Conn, error) // the matching upstream end
	cleanups []func()
}

func (e *vhtunEnv) close() {
	for i := len(e.cleanups) - 1; i >= 0; i-- {
		f := e.cleanups[i]
		done := make(chan struct{})
		go func() { defer close(done); defer func() { _ = recover() }(); f() }()
		select {
		case <-done:
		case <-time.After(30 * time.Second):
		}
	}
}

func vhtunSetup(sc vhtunScenario) (*vhtunEnv, error) {
	env := &vhtunEnv{}
	endpoint := "vh-" + sc.ID
	if sc.Endpoint != "" {
		endpoint = sc.Endpoint
	}
	a := cluster.NewNode()
	a.Start()
	env.cleanups = append(env.cleanups, a.Stop)
	env.nodes = append(env.nodes, a)
	entryNode := a
	if sc.Nodes >= 2 {
		b := cluster.NewNode(cluster.WithJoin([]string{a.GossipAddr()}))
		b.Start()
		env.cleanups = append(env.cleanups, b.Stop)
		env.nodes = append(env.nodes, b)
		entryNode = b
	}
	up := client.Upstream{URL: &url.URL{Scheme: "http", Host: a.UpstreamAddr()}}

	// ---- exit side
	ctx, cancel := context.WithCancel(context.Background())
	env.cleanups = append(env.cleanups, cancel)
	for _, d := range sc.Decoys {
		d := d
		dln, err := up.Listen(ctx, d)
		if err != nil {
			return env, fmt.Errorf("decoy listen %q: %w", d, err)
		}
		env.cleanups = append(env.cleanups, func() { _ = dln.Close() })
		go func() {
			for {
				c, err := dln.Accept()
				if err != nil {
					return
				}
				env.decoyMu.Lock()
				env.decoyHits = append(env.decoyHits, d)
				env.decoyMu.Unlock()
				_ = c.Close()
			}
		}()
	}
	acceptWithTimeout := func(ln net.Listener) func() (net.Conn, error) {
		return func() (net.Conn, error) {
			type res struct {
				c   net.Conn
				err error
			}
			ch := make(chan res, 1)
			go func() { c, err := ln.Accept(); ch <- res{c, err} }()
			select {
			case r := <-ch:
				return r.c, r.err
			case <-time.After(10 * time.Second):
				return nil, errors.New("accept timed out")
			}
		}
	}
	switch sc.Exit {
	case "listener":
		ln, err := up.Listen(ctx, endpoint)
		if err != nil {
			return env, fmt.Errorf("listen: %w", err)
		}
		env.cleanups = append(env.cleanups, func() { _ = ln.Shutdown() })
		env.accept = acceptWithTimeout(ln)
	case "agent", "clientfwd":
		tcpLn, err := net.Listen("tcp", "127.0.0.1:0")
		if err != nil {
			return env, err
		}
		env.cleanups = append(env.cleanups, func() { _ = tcpLn.Close() })
		env.accept = acceptWithTimeout(tcpLn)
		if sc.Exit == "agent" {
			ln, err := up.Listen(ctx, endpoint)
			if err != nil {
				return env, fmt.Errorf("listen: %w", err)
			}
			conf := agentconfig.ListenerConfig{
				EndpointID: endpoint,
				Addr:       tcpLn.Addr().String(),
				Protocol:   agentconfig.ListenerProtocolTCP,
				Timeout:    15 * time.Second,
			}
			srv := tcpproxy.NewServer(conf, log.NewNopLogger())
			go func() { _ = srv.Serve(ln) }()
			env.cleanups = append(env.cleanups, func() { _ = srv.Close(); _ = ln.Shutdown() })
		} else {
			fwd, err := up.ListenAndForward(ctx, endpoint, tcpLn.Addr().String())
			if err != nil {
				return env, fmt.Errorf("listen and forward: %w", err)
			}
			env.cleanups = append(env.cleanups, func() { _ = fwd.Close(); _ = fwd.Wait() })
		}
	default:
		return env, errors.New("unknown exit " + sc.Exit)
	}

	// ---- entry side
	dialer := &client.Dialer{URL: &url.URL{Scheme: "http", Host: entryNode.ProxyAddr()}}
	switch sc.Entry {
	case "dialer":
		env.dial = func() (net.Conn, error) {
			ctx, cancel := context.WithTimeout(context.Background(), 10*time.Second)
			defer cancel()
			return dialer.Dial(ctx, endpoint)
		}
	case "forwarder":
		fln, err := net.Listen("tcp", "127.0.0.1:0")
		if err != nil {
			return env, err
		}
		f := forward.NewForwarder(endpoint, dialer, log.NewNopLogger())
		go func() { _ = f.Forward(fln) }()
		env.cleanups = append(env.cleanups, func() { _ = f.Close() })
		env.dial = func() (net.Conn, error) {
			return net.DialTimeout("tcp", fln.Addr().String(), 10*time.Second)
		}
	default:
		return env, errors.New("unknown entry " + sc.Entry)
	}
	// wait until the endpoint is routable from the entry node (registration + gossip to node B)
	deadline := time.Now().Add(40 * time.Second)
	for {
		pctx, pcancel := context.WithTimeout(context.Background(), 10*time.Second)
		pc, err := dialer.Dial(pctx, endpoint)
		pcancel()
		if err == nil {
			pu, aerr := env.accept()
			_ = pc.Close()
			if aerr == nil {
				_ = pu.Close()
				break
			}
			err = aerr
		}
		if time.Now().After(deadline) {
			return env, fmt.Errorf("endpoint never became routable: %v", err)
		}
		time.Sleep(100 * time.Millisecond)
	}
	return env, nil
}

// open one tunnelled connection: retry while the endpoint is not routable yet (gossip still propagating
// to the entry node). A TCP connect to the forwarder always succeeds, so there the probe is the accept.
func vhtunOpen(env *vhtunEnv) (net.Conn, net.Conn, error) {
	deadline := time.Now().Add(30 * time.Second)
	var lastErr error
	for time.Now().Before(deadline) {
		c, err := env.dial()
		if err != nil {
			lastErr = err
			time.Sleep(100 * time.Millisecond)
			continue
		}
		u, err := env.accept()
		if err != nil {
			_ = c.Close()
			lastErr = err
			time.Sleep(100 * time.Millisecond)
			continue
		}
		return c, u, nil
	}
	return nil, nil, fmt.Errorf("could not open a tunnelled connection: %v", lastErr)
}

func vhtunEchoBurst(env *vhtunEnv, n int) []string {
	stop := make(chan struct{})
	var awg sync.WaitGroup
	awg.Add(1)
	go func() { // the upstream end: echo every connection
		defer awg.Done()
		for {
			select {
			case <-stop:
				return
			default:
			}
			u, err := env.accept()
			if err != nil {
				continue
			}
			go func(u net.Conn) { _, _ = io.Copy(u, u); _ = u.Close() }(u)
		}
	}()
	var mu sync.Mutex
	bad := []string{}
	var wg sync.WaitGroup
	start := make(chan struct{})
	for i := 0; i < n; i++ {
		wg.Add(1)
		go func(i int) {
			defer wg.Done()
			<-start
			fail := func(s string) { mu.Lock(); bad = append(bad, fmt.Sprintf("client %d: %s", i, s)); mu.Unlock() }
			c, err := env.dial()
			if err != nil {
				fail("dial: " + err.Error())
				return
			}
			defer c.Close()
			data := vhtunFill(1000+i, 48*1024)
			_ = c.SetDeadline(time.Now().Add(15 * time.Second))
			go func() {
				for off := 0; off < len(data); off += 4096 {
					if _, err := c.Write(data[off : off+4096]); err != nil {
						return
					}
				}
			}()
			got := make([]byte, len(data))
			if _, err := io.ReadFull(c, got); err != nil {
				fail("read back: " + err.Error())
				return
			}
			if !bytes.Equal(got, data) {
				fail("the echoed bytes differ from what was written")
			}
		}(i)
	}
	close(start)
	wg.Wait()
	close(stop)
	if pc, err := env.dial(); err == nil { // wake the acceptor up so that it sees the stop
		_, _ = pc.Write([]byte("x"))
		time.AfterFunc(500*time.Millisecond, func() { _ = pc.Close() })
	}
	awg.Wait()
	sort.Strings(bad)
	if len(bad) > 4 {
		bad = append(bad[:4], fmt.Sprintf("... %d more", len(bad)-4))
	}
	return bad
}

func vhtunRunConn(env *vhtunEnv, spec vhtunConn) (out vhtunConnOut) {
	c, u, err := vhtunOpen(env)
	if err != nil {
		out.Error = err.Error()
		return
	}
	defer c.Close()
	defer u.Close()
	upData := vhtunFill(spec.Seed, vhtunSum(spec.Up))
	dnData := vhtunFill(spec.Seed+7919, vhtunSum(spec.Down))
	var mu sync.Mutex
	addErr := func(s string) {
		mu.Lock()
		defer mu.Unlock()
		if out.Error == "" {
			out.Error = s
		}
	}
	var zero int
	var zmu sync.Mutex
	rd := func(conn net.Conn, want int, bufs []int) ([]byte, error) {
		z := 0
		b, err := vhtunRead(conn, want, bufs, &z)
		zmu.Lock()
		zero += z
		zmu.Unlock()
		return b, err
	}
	closerConn, otherConn := c, u
	if spec.Closer == "upstream" {
		closerConn, otherConn = u, c
	}
	start := time.Now()
	if spec.Mode == "half" {
		// the closer writes its stream and closes immediately; the other end reads to end-of-stream
		data, chunks, bufs := upData, spec.Up, spec.RbufUp
		if spec.Closer == "upstream" {
			data, chunks, bufs = dnData, spec.Down, spec.RbufDn
		}
		var wg sync.WaitGroup
		wg.Add(1)
		var got []byte
		var rerr error
		go func() {
			defer wg.Done()
			if spec.PauseMs > 0 && len(data) > 1024 {
				var first []byte
				first, rerr = rd(otherConn, 1024, bufs)
				if rerr == nil {
					time.Sleep(time.Duration(spec.PauseMs) * time.Millisecond)
					var rest []byte
					rest, rerr = rd(otherConn, -1, bufs)
					got = append(first, rest...)
				} else {
					got = first
				}
				return
			}
			got, rerr = rd(otherConn, -1, bufs)
		}()
		if err := vhtunWrite(closerConn, data, chunks); err != nil {
			addErr(err.Error())
		}
		start = time.Now()
		_ = closerConn.Close()
		wg.Wait()
		if spec.Closer == "upstream" {
			out.SentDown, out.GotDown = hex.EncodeToString(data), hex.EncodeToString(got)
		} else {
			out.SentUp, out.GotUp = hex.EncodeToString(data), hex.EncodeToString(got)
		}
		out.EOFClass = vhtunEOFClass(rerr)
		out.EOFSeen = out.EOFClass == "eof" || out.EOFClass == "closed"
		out.EOFMillis = time.Since(start).Milliseconds()
		if spec.LingerMs > 0 && spec.Closer != "upstream" && out.EOFSeen {
			t1 := time.Now()
			for time.Since(t1) < time.Duration(spec.LingerMs)*time.Millisecond {
				_ = otherConn.SetWriteDeadline(time.Now().Add(200 * time.Millisecond))
				if _, err := otherConn.Write([]byte{0x55}); err != nil {
					out.LingerClosed = true
					break
				}
				time.Sleep(10 * time.Millisecond)
			}
			out.LingerMs = time.Since(t1).Milliseconds()
		}
		zmu.Lock()
		out.ZeroReads = zero
		zmu.Unlock()
		return
	}
	var wg sync.WaitGroup
	var gotUp, gotDn []byte
	wg.Add(4)
	go func() {
		defer wg.Done()
		if err := vhtunWrite(c, upData, spec.Up); err != nil {
			addErr("client " + err.Error())
		}
	}()
	go func() {
		defer wg.Done()
		if err := vhtunWrite(u, dnData, spec.Down); err != nil {
			addErr("upstream " + err.Error())
		}
	}()
	go func() {
		defer wg.Done()
		var err error
		gotUp, err = rd(u, len(upData), spec.RbufUp)
		if err != nil {
			addErr("upstream read: " + err.Error())
		}
	}()
	go func() {
		defer wg.Done()
		var err error
		gotDn, err = rd(c, len(dnData), spec.RbufDn)
		if err != nil {
			addErr("client read: " + err.Error())
		}
	}()
	wg.Wait()
	out.SentUp, out.GotUp = vhtunShow(upData, gotUp)
	out.SentDown, out.GotDown = vhtunShow(dnData, gotDn)
	// close one end, the other must see end-of-stream (and nothing more)
	start = time.Now()
	_ = closerConn.Close()
	extra, rerr := rd(otherConn, -1, []int{512})
	out.EOFClass = vhtunEOFClass(rerr)
	out.EOFSeen = (out.EOFClass == "eof" || out.EOFClass == "closed") && len(extra) == 0
	if len(extra) != 0 {
		addErr(fmt.Sprintf("%d unexpected bytes after both streams were complete", len(extra)))
	}
	out.EOFMillis = time.Since(start).Milliseconds()
	zmu.Lock()
	out.ZeroReads = zero
	zmu.Unlock()
	return
}

// goroutines that belong to a tunnelled connection ("legs"): anything running piko's copy pairs, the
// websocket adapter, io.Copy, a yamux stream or the reverse proxy's protocol-switch copier. Long-lived
// accept loops in the same files are part of the baseline.
var vhtunLegMarkers = []string{
	"server/proxy/tcpproxy.go", "client/forwarder.go", "agent/tcpproxy/server.go", "forward/forwarder.go",
	"pkg/websocket/conn.go", "io.copyBuffer", "yamux.(*Stream)", "switchProtocolCopier", "handleUpgradeResponse",
}

func vhtunLegs() int {
	buf := make([]byte, 4<<20)
	n := runtime.Stack(buf, true)
	count := 0
	for _, g := range bytes.Split(buf[:n], []byte("\n\n")) {
		if bytes.Contains(g, []byte("vhtunLegs")) {
			continue
		}
		for _, m := range vhtunLegMarkers {
			if bytes.Contains(g, []byte(m)) {
				count++
				break
			}
		}
	}
	return count
}

// highest goroutine count seen over a short window (background timers make single samples noisy)
func vhtunGoroutines(window time.Duration) int {
	max := 0
	end := time.Now().Add(window)
	for time.Now().Before(end) {
		if n := runtime.NumGoroutine(); n > max {
			max = n
		}
		time.Sleep(10 * time.Millisecond)
	}
	return max
}

func vhtunRunScenario(sc vhtunScenario) (out vhtunScenarioOut) {
	out.ID = sc.ID
	out.Conns = []vhtunConnOut{}
	defer func() {
		if r := recover(); r != nil {
			out.Panic = fmt.Sprint(r)
		}
	}()
	env, err := vhtunSetup(sc)
	defer env.close()
	defer func() {
		env.decoyMu.Lock()
		out.DecoyHits = append([]string{}, env.decoyHits...)
		env.decoyMu.Unlock()
	}()
	if err != nil {
		out.Panic = "setup: " + err.Error()
		return
	}
	// warm-up connection so that lazily started helpers are part of the baseline
	w := vhtunRunConn(env, vhtunConn{Up: []int{3}, Down: []int{3}, Closer: "client", Mode: "full", Seed: 1})
	if w.Error != "" {
		out.Panic = "warm-up connection: " + w.Error
		return
	}
	time.Sleep(300 * time.Millisecond)
	out.Baseline = vhtunGoroutines(500 * time.Millisecond)
	out.LegsBase = vhtunLegs()
	for _, spec := range sc.Conns {
		co := vhtunRunConn(env, spec)
		out.Conns = append(out.Conns, co)
		if co.Error != "" || co.GotUp != co.SentUp || co.GotDown != co.SentDown || !co.EOFSeen {
			// one failing connection is enough; the rest would only wait for time-outs
			out.Failed = true
			return
		}
	}
	if sc.EchoBurst > 0 {
		out.BurstN = sc.EchoBurst
		out.BurstBad = vhtunEchoBurst(env, sc.EchoBurst)
		if len(out.BurstBad) > 0 {
			out.Failed = true
			return
		}
	}
	// both legs released: no goroutine of a tunnelled connection is left (generous deadline, no timing assertion)
	deadline := time.Now().Add(25 * time.Second)
	for {
		out.LegsFinal = vhtunLegs()
		if out.LegsFinal <= out.LegsBase {
			out.Released = true
			break
		}
		if time.Now().After(deadline) {
			var buf bytes.Buffer
			_ = pprof.Lookup("goroutine").WriteTo(&buf, 1)
			s := buf.String()
			if len(s) > 12000 {
				s = s[:12000]
			}
			out.Goroutines = s
			break
		}
		time.Sleep(50 * time.Millisecond)
	}
	out.Final = vhtunGoroutines(200 * time.Millisecond)
	return
}

func TestVerifHarness_Tunnel(t *testing.T) {
	inPath := os.Getenv("VERIF_IN")
	if inPath == "" {
		t.Skip("VERIF_IN not set")
	}
	raw, err := os.ReadFile(inPath)
	if err != nil {
		t.Fatal(err)
	}
	var in vhtunInput
	if err := json.Unmarshal(raw, &in); err != nil {
		t.Fatal(err)
	}
	var out vhtunOutput
	// scenarios run one after the other: the goroutine accounting is process wide
	for _, sc := range in.Scenarios {
		done := make(chan vhtunScenarioOut, 1)
		go func() { done <- vhtunRunScenario(sc) }()
		select {
		case r := <-done:
			out.Scenarios = append(out.Scenarios, r)
			if r.Failed || r.Panic != "" {
				goto finish // fail fast: the python monitor reports this scenario
			}
		case <-time.After(240 * time.Second):
			out.Scenarios = append(out.Scenarios, vhtunScenarioOut{ID: sc.ID, Panic: "watchdog: scenario did not finish", Conns: []vhtunConnOut{}})
		}
	}
finish:
	b, err := json.Marshal(out)
	if err != nil {
		t.Fatal(err)
	}
	if err := os.WriteFile(os.Getenv("VERIF_OUT"), b, 0o644); err != nil {
		t.Fatal(err)
	}
}

// streams above 256 KiB leave the process as a fingerprint "big:<length>:<sha256>:<offset of the first differing byte or -1>"
// (hex-encoding megabytes into the JSON output would dominate the run)
func vhtunShow(sent, got []byte) (string, string) {
	if len(sent) <= 256*1024 && len(got) <= 256*1024 {
		return hex.EncodeToString(sent), hex.EncodeToString(got)
	}
	diff := -1
	for i := 0; i < len(sent) && i < len(got); i++ {
		if sent[i] != got[i] {
			diff = i
			break
		}
	}
	if diff == -1 && len(sent) != len(got) {
		diff = len(got)
		if len(sent) < len(got) {
			diff = len(sent)
		}
	}
	hs, hg := sha256.Sum256(sent), sha256.Sum256(got)
	return fmt.Sprintf("big:%d:%x:%d", len(sent), hs[:8], -1), fmt.Sprintf("big:%d:%x:%d", len(got), hg[:8], diff)
}
