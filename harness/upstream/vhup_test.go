//go:build verif

// Verification harness for server/upstream (properties C15, C05). Injected into the package with
// `go test -overlay` (never copied into /repo). Drives the REAL LoadBalancedManager on top of a REAL
// cluster.State that is wired, through the REAL server/gossip syncer (gossip.NewGossip -> newSyncer ->
// Sync), to a REAL pkg/gossip cluster state; the gossip listeners are in-memory stubs that never deliver
// anything and the gossip interval is one hour, so the only writer of the gossip state is the chain
// AddConn/RemoveConn -> AddLocalEndpoint/RemoveLocalEndpoint -> onLocalEndpointUpdate -> UpsertLocal/DeleteLocal.
package upstream

import (
	"io"
	"github.com/andydunstall/yamux"
	"encoding/hex"
	"encoding/json"
	"fmt"
	"net"
	"os"
	"sort"
	"sync"
	"testing"
	"time"

	pkggossip "github.com/andydunstall/piko/pkg/gossip"
	"github.com/andydunstall/piko/pkg/log"
	"github.com/andydunstall/piko/server/cluster"
	servergossip "github.com/andydunstall/piko/server/gossip"
)

type vhupEp struct {
	E string `json:"e"`
	N int    `json:"n"`
}

type vhupOp struct {
	Op    string   `json:"op"`
	U     int      `json:"u"`
	E     string   `json:"e"`
	Allow bool     `json:"allow"`
	ID    string   `json:"id"`
	St    string   `json:"st"`
	Eps   []vhupEp `json:"eps"`
	N     int      `json:"n"`
}

type vhupLocal struct {
	ID    string `json:"id"`
	GAddr string `json:"gaddr"`
	PAddr string `json:"paddr"`
	AAddr string `json:"aaddr"`
}

type vhupCase struct {
	ID      string     `json:"id"`
	Local   vhupLocal  `json:"local"`
	Ops     []vhupOp   `json:"ops"`
	Threads [][]vhupOp `json:"threads"`
}

type vhupInput struct {
	Mode  string     `json:"mode"`
	Cases []vhupCase `json:"cases"`
}

type vhupEntry struct {
	K   string `json:"k"`
	V   string `json:"v"`
	Ver uint64 `json:"ver"`
	Int bool   `json:"int"`
	Del bool   `json:"del"`
}

type vhupBal struct {
	E    string `json:"e"`
	Ups  []int  `json:"ups"`
	Next int    `json:"next"`
}

type vhupSel struct {
	Kind  string `json:"kind"` // "" | local | nil | remote | none | foreign
	U     int    `json:"u"`
	SelEp string `json:"selep"` // EndpointID() of what was returned
	ID    string `json:"id"`    // remote node id
	Fwd   bool   `json:"fwd"`
}

type vhupObs struct {
	Eps   []vhupEp    `json:"eps"`
	Local []vhupEp    `json:"local"`
	GVer  uint64      `json:"gver"`
	GEnts []vhupEntry `json:"gents"`
	Bal   []vhupBal   `json:"bal"`
	Sel   vhupSel     `json:"sel"`
	Ret   int         `json:"ret"` // balancer mode: what Remove returned (1 true, 0 false), -1 otherwise
}

type vhupThreadSel struct {
	E   string  `json:"e"`
	Sel vhupSel `json:"sel"`
}

type vhupCaseOut struct {
	ID    string            `json:"id"`
	Obs   []vhupObs         `json:"obs"`
	Final *vhupObs          `json:"final,omitempty"`
	TSels [][]vhupThreadSel `json:"tsels,omitempty"`
	Panic string            `json:"panic"`
}

func vhupHex(s string) string { return hex.EncodeToString([]byte(s)) }
func vhupUnhex(s string) string {
	b, err := hex.DecodeString(s)
	if err != nil {
		panic("bad hex: " + s)
	}
	return string(b)
}

// fake upstream; identity is the pointer
type vhupFake struct {
	uid int
	ep  string
}

func (u *vhupFake) EndpointID() string      { return u.ep }
func (u *vhupFake) Dial() (net.Conn, error) { return nil, nil }
func (u *vhupFake) Forward() bool           { return false }

// in-memory listeners that block until closed
type vhupAddr struct{}

func (vhupAddr) Network() string { return "mem" }
func (vhupAddr) String() string  { return "mem" }

type vhupLn struct {
	ch   chan struct{}
	once sync.Once
}

func vhupNewLn() *vhupLn { return &vhupLn{ch: make(chan struct{})} }
func (l *vhupLn) Accept() (net.Conn, error) {
	<-l.ch
	return nil, net.ErrClosed
}
func (l *vhupLn) Close() error   { l.once.Do(func() { close(l.ch) }); return nil }
func (l *vhupLn) Addr() net.Addr { return vhupAddr{} }
func (l *vhupLn) ReadFrom(p []byte) (int, net.Addr, error) {
	<-l.ch
	return 0, nil, net.ErrClosed
}
func (l *vhupLn) WriteTo(p []byte, addr net.Addr) (int, error) { return len(p), nil }
func (l *vhupLn) LocalAddr() net.Addr                           { return vhupAddr{} }
func (l *vhupLn) SetDeadline(t time.Time) error                 { return nil }
func (l *vhupLn) SetReadDeadline(t time.Time) error             { return nil }
func (l *vhupLn) SetWriteDeadline(t time.Time) error            { return nil }

type vhupRig struct {
	cs      *cluster.State
	gsp     *servergossip.Gossip
	mgr     *LoadBalancedManager
	localID string
	mu      sync.Mutex
	fakes   map[string]*vhupFake
	// real upstreams (sequential histories): a ConnUpstream over a real yamux session on an in-memory pipe, as the
	// upstream server registers them; "sever" closes the session without telling the manager
	reals map[string]*vhupReal
	uidOf map[Upstream]int
}

type vhupReal struct {
	uid            int
	up             *ConnUpstream
	client, server *yamux.Session
}

func vhupNewRig(c vhupCase) *vhupRig {
	id := vhupUnhex(c.Local.ID)
	cs := cluster.NewState(&cluster.Node{
		ID:        id,
		ProxyAddr: vhupUnhex(c.Local.PAddr),
		AdminAddr: vhupUnhex(c.Local.AAddr),
	}, log.NewNopLogger())
	gsp := servergossip.NewGossip(cs, vhupNewLn(), vhupNewLn(), &pkggossip.Config{
		BindAddr:      vhupUnhex(c.Local.GAddr),
		AdvertiseAddr: vhupUnhex(c.Local.GAddr),
		Interval:      time.Hour,
		MaxPacketSize: 1400,
	}, log.NewNopLogger())
	return &vhupRig{
		cs:      cs,
		gsp:     gsp,
		mgr:     NewLoadBalancedManager(cs, nil),
		localID: id,
		fakes:   make(map[string]*vhupFake),
		reals:   make(map[string]*vhupReal),
		uidOf:   make(map[Upstream]int),
	}
}

// real returns the real upstream (uid, ep), creating its session on first use
func (r *vhupRig) real(uid int, ep string) Upstream {
	r.mu.Lock()
	defer r.mu.Unlock()
	key := fmt.Sprintf("%d/%s", uid, ep)
	if x, ok := r.reals[key]; ok {
		return x.up
	}
	a, b := net.Pipe()
	cfg := yamux.DefaultConfig()
	cfg.LogOutput = io.Discard
	cfg.EnableKeepAlive = false
	cl, err := yamux.Client(a, cfg)
	if err != nil {
		panic(err)
	}
	cfg2 := yamux.DefaultConfig()
	cfg2.LogOutput = io.Discard
	cfg2.EnableKeepAlive = false
	sv, err := yamux.Server(b, cfg2)
	if err != nil {
		panic(err)
	}
	x := &vhupReal{uid: uid, client: cl, server: sv, up: NewConnUpstream(ep, sv)}
	r.reals[key] = x
	r.uidOf[x.up] = uid
	return x.up
}

func (r *vhupRig) sever(uid int, ep string) {
	r.mu.Lock()
	x, ok := r.reals[fmt.Sprintf("%d/%s", uid, ep)]
	r.mu.Unlock()
	if ok {
		_ = x.client.Close()
		_ = x.server.Close()
	}
}

func (r *vhupRig) close() {
	_ = r.gsp.Close()
	for _, x := range r.reals {
		_ = x.client.Close()
		_ = x.server.Close()
	}
}

func (r *vhupRig) fake(uid int, ep string) *vhupFake {
	r.mu.Lock()
	defer r.mu.Unlock()
	key := fmt.Sprintf("%d/%s", uid, ep)
	f, ok := r.fakes[key]
	if !ok {
		f = &vhupFake{uid: uid, ep: ep}
		r.fakes[key] = f
	}
	return f
}

func vhupSortEps(m map[string]int) []vhupEp {
	out := make([]vhupEp, 0, len(m))
	for k, v := range m {
		out = append(out, vhupEp{E: vhupHex(k), N: v})
	}
	sort.Slice(out, func(i, j int) bool { return out[i].E < out[j].E })
	return out
}

func (r *vhupRig) observe() vhupObs {
	var ob vhupObs
	ob.Eps = vhupSortEps(r.mgr.Endpoints())
	ob.Local = vhupSortEps(r.cs.LocalNode().Endpoints)
	ob.GEnts = []vhupEntry{}
	if ns, ok := r.gsp.NodeState(r.localID); ok {
		ob.GVer = ns.Version
		for _, e := range ns.Entries {
			ob.GEnts = append(ob.GEnts, vhupEntry{K: vhupHex(e.Key), V: vhupHex(e.Value), Ver: e.Version, Int: e.Internal, Del: e.Deleted})
		}
	}
	ob.Bal = []vhupBal{}
	r.mgr.mu.Lock()
	for e, lb := range r.mgr.localUpstreams {
		b := vhupBal{E: vhupHex(e), Ups: []int{}, Next: lb.nextIndex}
		for _, u := range lb.upstreams {
			if f, ok := u.(*vhupFake); ok {
				b.Ups = append(b.Ups, f.uid)
			} else if id, ok := r.uidOf[u]; ok {
				b.Ups = append(b.Ups, id)
			} else {
				b.Ups = append(b.Ups, -1)
			}
		}
		ob.Bal = append(ob.Bal, b)
	}
	r.mgr.mu.Unlock()
	sort.Slice(ob.Bal, func(i, j int) bool { return ob.Bal[i].E < ob.Bal[j].E })
	return ob
}

func (r *vhupRig) sel(e string, allow bool) vhupSel {
	u, ok := r.mgr.Select(e, allow)
	if !ok {
		if u != nil {
			return vhupSel{Kind: "foreign"}
		}
		return vhupSel{Kind: "none"}
	}
	if u == nil {
		return vhupSel{Kind: "nil"}
	}
	switch x := u.(type) {
	case *vhupFake:
		if x == nil {
			return vhupSel{Kind: "nil"}
		}
		return vhupSel{Kind: "local", U: x.uid, SelEp: vhupHex(x.EndpointID()), Fwd: x.Forward()}
	case *ConnUpstream:
		if x == nil {
			return vhupSel{Kind: "nil"}
		}
		r.mu.Lock()
		id, known := r.uidOf[x]
		r.mu.Unlock()
		if !known {
			return vhupSel{Kind: "foreign"}
		}
		return vhupSel{Kind: "local", U: id, SelEp: vhupHex(x.EndpointID()), Fwd: x.Forward()}
	case *NodeUpstream:
		if x == nil || x.node == nil {
			return vhupSel{Kind: "nil"}
		}
		return vhupSel{Kind: "remote", ID: vhupHex(x.node.ID), SelEp: vhupHex(x.EndpointID()), Fwd: x.Forward()}
	}
	return vhupSel{Kind: "foreign"}
}

func (r *vhupRig) apply(op vhupOp) vhupSel {
	switch op.Op {
	case "add":
		r.mgr.AddConn(r.real(op.U, vhupUnhex(op.E)))
	case "remove":
		r.mgr.RemoveConn(r.real(op.U, vhupUnhex(op.E)))
	case "sever":
		r.sever(op.U, vhupUnhex(op.E))
	case "select":
		return r.sel(vhupUnhex(op.E), op.Allow)
	case "addnode":
		var eps map[string]int
		if len(op.Eps) > 0 {
			eps = make(map[string]int)
			for _, ep := range op.Eps {
				eps[vhupUnhex(ep.E)] = ep.N
			}
		}
		r.cs.AddNode(&cluster.Node{
			ID:        vhupUnhex(op.ID),
			Status:    cluster.NodeStatus(vhupUnhex(op.St)),
			ProxyAddr: "10.9.9.9:8000",
			AdminAddr: "10.9.9.9:8002",
			Endpoints: eps,
		})
	case "rmnode":
		r.cs.RemoveNode(vhupUnhex(op.ID))
	case "status":
		r.cs.UpdateRemoteStatus(vhupUnhex(op.ID), cluster.NodeStatus(vhupUnhex(op.St)))
	case "remoteep":
		r.cs.UpdateRemoteEndpoint(vhupUnhex(op.ID), vhupUnhex(op.E), op.N)
	case "remoteepdel":
		r.cs.RemoveRemoteEndpoint(vhupUnhex(op.ID), vhupUnhex(op.E))
	default:
		panic("unknown op " + op.Op)
	}
	return vhupSel{}
}

func vhupRunSeq(c vhupCase) (out vhupCaseOut) {
	out.ID = c.ID
	out.Obs = []vhupObs{}
	done := make(chan struct{})
	var mu sync.Mutex
	go func() {
		defer close(done)
		defer func() {
			if r := recover(); r != nil {
				mu.Lock()
				out.Panic = fmt.Sprint(r)
				mu.Unlock()
			}
		}()
		rig := vhupNewRig(c)
		defer rig.close()
		for _, op := range c.Ops {
			s := rig.apply(op)
			ob := rig.observe()
			ob.Sel = s
			mu.Lock()
			out.Obs = append(out.Obs, ob)
			mu.Unlock()
		}
	}()
	select {
	case <-done:
	case <-time.After(30 * time.Second):
		mu.Lock()
		defer mu.Unlock()
		cp := vhupCaseOut{ID: c.ID, Obs: append([]vhupObs{}, out.Obs...), Panic: "watchdog: op did not return within 30s (deadlock?)"}
		return cp
	}
	return out
}

// direct balancer mode: the ops run on a bare loadBalancer (Add / Remove / Next), including the paths the
// manager never takes (Remove and Next on an empty balancer)
func vhupRunBal(c vhupCase) (out vhupCaseOut) {
	out.ID = c.ID
	out.Obs = []vhupObs{}
	defer func() {
		if r := recover(); r != nil {
			out.Panic = fmt.Sprint(r)
		}
	}()
	lb := &loadBalancer{}
	fakes := map[int]*vhupFake{}
	fake := func(uid int) *vhupFake {
		f, ok := fakes[uid]
		if !ok {
			f = &vhupFake{uid: uid, ep: "b"}
			fakes[uid] = f
		}
		return f
	}
	for _, op := range c.Ops {
		ob := vhupObs{Eps: []vhupEp{}, Local: []vhupEp{}, GEnts: []vhupEntry{}, Ret: -1}
		switch op.Op {
		case "add":
			lb.Add(fake(op.U))
		case "remove":
			if lb.Remove(fake(op.U)) {
				ob.Ret = 1
			} else {
				ob.Ret = 0
			}
		case "select":
			u := lb.Next()
			if u == nil {
				ob.Sel = vhupSel{Kind: "nil"}
			} else if f, ok := u.(*vhupFake); ok && f != nil {
				ob.Sel = vhupSel{Kind: "local", U: f.uid, SelEp: vhupHex(f.ep)}
			} else {
				ob.Sel = vhupSel{Kind: "foreign"}
			}
		default:
			panic("unknown balancer op " + op.Op)
		}
		b := vhupBal{E: "", Ups: []int{}, Next: lb.nextIndex}
		for _, u := range lb.upstreams {
			if f, ok := u.(*vhupFake); ok {
				b.Ups = append(b.Ups, f.uid)
			} else {
				b.Ups = append(b.Ups, -1)
			}
		}
		ob.Bal = []vhupBal{b}
		out.Obs = append(out.Obs, ob)
	}
	return out
}

func vhupRunConc(c vhupCase) (out vhupCaseOut) {
	out.ID = c.ID
	out.Obs = []vhupObs{}
	done := make(chan struct{})
	var mu sync.Mutex
	var panics []string
	var rig *vhupRig
	tsels := make([][]vhupThreadSel, len(c.Threads))
	go func() {
		defer close(done)
		defer func() {
			if r := recover(); r != nil {
				mu.Lock()
				panics = append(panics, fmt.Sprint(r))
				mu.Unlock()
			}
		}()
		rig = vhupNewRig(c)
		defer rig.close()
		for _, op := range c.Ops { // sequential prologue (remote nodes)
			rig.apply(op)
		}
		start := make(chan struct{})
		var wg sync.WaitGroup
		for ti := range c.Threads {
			wg.Add(1)
			go func(ti int) {
				defer wg.Done()
				defer func() {
					if r := recover(); r != nil {
						mu.Lock()
						panics = append(panics, fmt.Sprint(r))
						mu.Unlock()
					}
				}()
				<-start
				for _, op := range c.Threads[ti] {
					s := rig.apply(op)
					if op.Op == "select" {
						tsels[ti] = append(tsels[ti], vhupThreadSel{E: op.E, Sel: s})
					}
				}
			}(ti)
		}
		close(start)
		wg.Wait()
		ob := rig.observe()
		mu.Lock()
		out.Final = &ob
		mu.Unlock()
	}()
	select {
	case <-done:
	case <-time.After(60 * time.Second):
		return vhupCaseOut{ID: c.ID, Obs: []vhupObs{}, Panic: "watchdog: concurrent script did not finish within 60s (deadlock?)"}
	}
	mu.Lock()
	defer mu.Unlock()
	if len(panics) > 0 {
		out.Panic = panics[0]
	}
	out.TSels = tsels
	return out
}

func TestVerifHarness_Upstream(t *testing.T) {
	inPath, outPath := os.Getenv("VERIF_IN"), os.Getenv("VERIF_OUT")
	if inPath == "" {
		t.Skip("VERIF_IN not set")
	}
	raw, err := os.ReadFile(inPath)
	if err != nil {
		t.Fatal(err)
	}
	var in vhupInput
	if err := json.Unmarshal(raw, &in); err != nil {
		t.Fatal(err)
	}
	res := make([]vhupCaseOut, len(in.Cases))
	switch in.Mode {
	case "seq":
		var wg sync.WaitGroup
		sem := make(chan struct{}, 8)
		for i := range in.Cases {
			wg.Add(1)
			sem <- struct{}{}
			go func(i int) {
				defer wg.Done()
				defer func() { <-sem }()
				res[i] = vhupRunSeq(in.Cases[i])
			}(i)
		}
		wg.Wait()
	case "conc":
		for i := range in.Cases {
			res[i] = vhupRunConc(in.Cases[i])
		}
	case "bal":
		for i := range in.Cases {
			res[i] = vhupRunBal(in.Cases[i])
		}
	default:
		t.Fatalf("unknown mode %q", in.Mode)
	}
	b, err := json.Marshal(map[string]any{"cases": res})
	if err != nil {
		t.Fatal(err)
	}
	if err := os.WriteFile(outPath, b, 0o644); err != nil {
		t.Fatal(err)
	}
}
