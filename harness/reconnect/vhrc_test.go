//go:build verif

package client

// Verification harness (C18, reconnection): the REAL Upstream.connect loop against a loopback server that fails the
// first N websocket handshakes (with a scripted status, or by closing the connection without answering) and then
// accepts. Records the exact backoff every retry announced (the "backoff" field of the loop's own log record - the
// Logger is part of the client API), the server-side arrival time of every attempt and the outcome.

import (
	"context"
	"encoding/json"
	"fmt"
	"net"
	"net/http"
	"net/url"
	"os"
	"sync"
	"testing"
	"time"

	"github.com/gorilla/websocket"
	"go.uber.org/zap"
)

type vhrcCase struct {
	ID       string `json:"id"`
	Min      int64  `json:"min"`      // Upstream.MinReconnectBackoff (0 = default)
	Max      int64  `json:"max"`      // Upstream.MaxReconnectBackoff (0 = default)
	Fails    int    `json:"fails"`    // failed attempts before the server accepts
	Status   int    `json:"status"`   // status of a failed attempt; 0 = close without answering
	CancelAt int    `json:"cancel_at"` // cancel the context when this attempt arrives (0 = never)
	Via      string `json:"via"`      // "connect" (Upstream.connect) or "listen" (Upstream.Listen)
	LimitMs  int    `json:"limit_ms"`
}

type vhrcOut struct {
	ID       string  `json:"id"`
	Waits    []int64 `json:"waits"`    // ns, parsed from the retry log records
	Arrivals []int64 `json:"arrivals"` // ns since the start of the case
	Outcome  string  `json:"outcome"`  // connected | ctx | fatal | timeout
	Err      string  `json:"err"`
	Panic    string  `json:"panic"`
}

type vhrcLogger struct {
	mu    sync.Mutex
	waits []int64
	bad   []string
}

func (l *vhrcLogger) Debug(msg string, fields ...zap.Field) {}
func (l *vhrcLogger) Info(msg string, fields ...zap.Field)  {}
func (l *vhrcLogger) Error(msg string, fields ...zap.Field) {}
func (l *vhrcLogger) Sync() error                           { return nil }
func (l *vhrcLogger) Warn(msg string, fields ...zap.Field) {
	for _, f := range fields {
		if f.Key == "backoff" {
			d, err := time.ParseDuration(f.String)
			l.mu.Lock()
			if err != nil {
				l.bad = append(l.bad, f.String)
			} else {
				l.waits = append(l.waits, int64(d))
			}
			l.mu.Unlock()
		}
	}
}

func vhrcRun(c vhrcCase) (out vhrcOut) {
	out.ID = c.ID
	defer func() {
		if r := recover(); r != nil {
			out.Panic = fmt.Sprint(r)
		}
	}()
	start := time.Now()
	ctx, cancel := context.WithCancel(context.Background())
	defer cancel()

	var mu sync.Mutex
	var arrivals []int64
	upgrader := websocket.Upgrader{}
	held := make(chan struct{})
	defer close(held)
	ln, err := net.Listen("tcp", "127.0.0.1:0")
	if err != nil {
		panic(err)
	}
	srv := &http.Server{Handler: http.HandlerFunc(func(w http.ResponseWriter, r *http.Request) {
		mu.Lock()
		arrivals = append(arrivals, int64(time.Since(start)))
		n := len(arrivals)
		mu.Unlock()
		if c.CancelAt != 0 && n == c.CancelAt {
			cancel()
		}
		if n <= c.Fails {
			if c.Status == 0 {
				hj, ok := w.(http.Hijacker)
				if !ok {
					panic("no hijacker")
				}
				conn, _, err := hj.Hijack()
				if err == nil {
					conn.Close()
				}
				return
			}
			w.WriteHeader(c.Status)
			return
		}
		conn, err := upgrader.Upgrade(w, r, nil)
		if err != nil {
			return
		}
		<-held
		conn.Close()
	})}
	go srv.Serve(ln)
	defer srv.Close()

	lg := &vhrcLogger{}
	u := &Upstream{
		URL:                 &url.URL{Scheme: "http", Host: ln.Addr().String()},
		MinReconnectBackoff: time.Duration(c.Min),
		MaxReconnectBackoff: time.Duration(c.Max),
		Logger:              lg,
	}
	type res struct {
		err error
	}
	done := make(chan res, 1)
	go func() {
		defer func() {
			if r := recover(); r != nil {
				done <- res{fmt.Errorf("panic: %v", r)}
			}
		}()
		if c.Via == "listen" {
			l, err := u.Listen(ctx, "e")
			if err == nil {
				defer l.Close()
			}
			done <- res{err}
			return
		}
		sess, err := u.connect(ctx, "e")
		if err == nil {
			defer sess.Close()
		}
		done <- res{err}
	}()
	limit := time.Duration(c.LimitMs) * time.Millisecond
	if limit == 0 {
		limit = 20 * time.Second
	}
	select {
	case r := <-done:
		switch {
		case r.err == nil:
			out.Outcome = "connected"
		case ctx.Err() != nil:
			out.Outcome = "ctx"
			out.Err = r.err.Error()
		default:
			out.Outcome = "fatal"
			out.Err = r.err.Error()
		}
	case <-time.After(limit):
		out.Outcome = "timeout"
		cancel()
		<-done
	}
	lg.mu.Lock()
	out.Waits = append([]int64{}, lg.waits...)
	if len(lg.bad) > 0 {
		out.Panic = "unparsable backoff in the log: " + lg.bad[0]
	}
	lg.mu.Unlock()
	mu.Lock()
	out.Arrivals = append([]int64{}, arrivals...)
	mu.Unlock()
	return out
}

func TestVerifHarness_Reconnect(t *testing.T) {
	in := os.Getenv("VERIF_IN")
	if in == "" {
		t.Skip("VERIF_IN not set")
	}
	raw, err := os.ReadFile(in)
	if err != nil {
		t.Fatal(err)
	}
	var cases []vhrcCase
	if err := json.Unmarshal(raw, &cases); err != nil {
		t.Fatal(err)
	}
	outs := make([]vhrcOut, len(cases))
	var wg sync.WaitGroup
	sem := make(chan struct{}, 8)
	for i := range cases {
		wg.Add(1)
		sem <- struct{}{}
		go func(i int) {
			defer wg.Done()
			defer func() { <-sem }()
			outs[i] = vhrcRun(cases[i])
		}(i)
	}
	wg.Wait()
	b, _ := json.Marshal(outs)
	if err := os.WriteFile(os.Getenv("VERIF_OUT"), b, 0o644); err != nil {
		t.Fatal(err)
	}
}
