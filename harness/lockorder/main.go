// lockorder: extracts the relation "mutex m2 may be acquired while mutex m1 is held" from the CURRENT
// source of piko (property C20) and writes it as a Coq list (LockEdges.v) plus a JSON report with one
// witness call path per edge.
//
// Method (all over-approximating):
//   - the server packages and everything they import (stdlib and third party included) are loaded from
//     source and turned into SSA (golang.org/x/tools/go/ssa, generics instantiated);
//   - call graph: CHA refined by VTA (variable type analysis; sound if CHA is, modulo reflection/unsafe);
//     it covers interface calls (gossip.Watcher -> *syncer ...), calls of stored function values (the
//     subscriber closures of cluster.State), bound-method closures, go and defer statements;
//   - mutex identity = (named struct type, field) - or the package level variable;
//   - per function a flow-sensitive forward "may be held" analysis over the SSA control flow graph:
//     Lock/RLock/TryLock add, Unlock/RUnlock remove, `defer mu.Unlock()` removes at the function's
//     RunDefers; a call adds what the callee may return holding (net acquisitions, fixpoint);
//   - an edge (m1,m2) is emitted when m2 is locked directly while m1 is in the held set, or when a call/go/
//     defer is made with m1 in the held set and some transitive callee may lock m2.
//
// RWMutex read locks are treated like exclusive locks. `go f()` made while holding is treated like a call
// (conservative). Only mutexes declared in the piko module are written to the Coq file; mutexes of other
// modules are tracked too so that "piko mutex acquired while a library mutex is held" can be reported.
package main

import (
	"encoding/json"
	"flag"
	"fmt"
	"go/token"
	"go/types"
	"os"
	"path/filepath"
	"sort"
	"strings"
	"time"

	"golang.org/x/tools/go/callgraph"
	"golang.org/x/tools/go/callgraph/cha"
	"golang.org/x/tools/go/callgraph/vta"
	"golang.org/x/tools/go/packages"
	"golang.org/x/tools/go/ssa"
	"golang.org/x/tools/go/ssa/ssautil"
)

var (
	flagRepo     = flag.String("repo", os.Getenv("VERIF_REPO"), "path of the piko tree to analyse")
	flagModule   = flag.String("module", "github.com/andydunstall/piko", "module path whose mutexes are reported")
	flagPatterns = flag.String("patterns", "./server/...", "space separated package patterns (relative to -repo)")
	flagCoq      = flag.String("coq", "", "write LockEdges.v here")
	flagJSON     = flag.String("json", "", "write the JSON report here")
	flagCG       = flag.String("cg", "vta", "call graph: vta | cha")
)

// ---------------------------------------------------------------- mutex identities

type mutex struct {
	ID   int    `json:"-"`
	Name string `json:"name"`
	Kind string `json:"kind"` // Mutex | RWMutex
	Piko bool   `json:"piko"`
	Decl string `json:"decl,omitempty"`
}

type world struct {
	holders map[[3]string]bool

	prog    *ssa.Program
	fset    *token.FileSet
	repo    string
	module  string
	mutexes []*mutex
	byName  map[string]*mutex

	callees map[ssa.CallInstruction][]*ssa.Function
	funcs   []*ssa.Function
	info    map[*ssa.Function]*funcInfo
	rev     map[*ssa.Function][]revEdge

	edges     map[[2]int]*edgeWitness
	diag      diagnostics
	goHeld    int
	callsHeld int
}

type revEdge struct {
	caller *ssa.Function
	site   ssa.CallInstruction
	isGo   bool
}

type diagnostics struct {
	Unresolved     []string `json:"unresolved_lock_receivers"` // in piko code
	Escapes        []string `json:"mutex_address_escapes"`     // in piko code
	UnheldUnlocks  []string `json:"unlock_of_not_held"`        // in piko code
	Unbalanced     []string `json:"functions_returning_with_lock_held"`
	DeferredLocks  []string `json:"deferred_lock_calls"`
	ForeignToPiko  []string `json:"piko_mutex_acquired_while_library_mutex_held"`
	GoWhileHolding []string `json:"go_statements_while_holding"`
	NoCallee       []string `json:"dynamic_calls_without_callee_while_holding"`
}

func (w *world) pos(p token.Pos) string {
	if !p.IsValid() {
		return "?"
	}
	ps := w.fset.Position(p)
	fn := ps.Filename
	if rel, err := filepath.Rel(w.repo, fn); err == nil && !strings.HasPrefix(rel, "..") {
		fn = rel
	} else if i := strings.Index(fn, "/pkg/mod/"); i >= 0 {
		fn = fn[i+len("/pkg/mod/"):]
	} else if i := strings.Index(fn, "/src/"); i >= 0 {
		fn = "go:" + fn[i+len("/src/"):]
	}
	return fmt.Sprintf("%s:%d", fn, ps.Line)
}

func (w *world) short(s string) string {
	return strings.ReplaceAll(s, w.module+"/", "")
}

func deref(t types.Type) types.Type {
	if p, ok := t.Underlying().(*types.Pointer); ok {
		return p.Elem()
	}
	return t
}

func isSyncMutexType(t types.Type) string {
	n, ok := types.Unalias(t).(*types.Named)
	if !ok || n.Obj().Pkg() == nil || n.Obj().Pkg().Path() != "sync" {
		return ""
	}
	if n.Obj().Name() == "Mutex" || n.Obj().Name() == "RWMutex" {
		return n.Obj().Name()
	}
	return ""
}

// lockOp classifies a static callee as one of sync.(*Mutex|*RWMutex).{Lock,RLock,TryLock,TryRLock,Unlock,RUnlock}
func lockOp(fn *ssa.Function) (op string, kind string) {
	if fn == nil || fn.Pkg == nil || fn.Pkg.Pkg.Path() != "sync" || fn.Signature.Recv() == nil {
		return "", ""
	}
	k := isSyncMutexType(deref(fn.Signature.Recv().Type()))
	if k == "" {
		return "", ""
	}
	switch fn.Name() {
	case "Lock", "RLock", "TryLock", "TryRLock":
		return "acq", k
	case "Unlock", "RUnlock":
		return "rel", k
	}
	return "other", k // RLocker etc.
}

func (w *world) typeOwner(t types.Type) (name string, piko bool, decl token.Pos) {
	t = types.Unalias(deref(t))
	if n, ok := t.(*types.Named); ok {
		n = n.Origin()
		if n.Obj().Pkg() != nil {
			p := n.Obj().Pkg().Path()
			return p + "." + n.Obj().Name(), p == w.module || strings.HasPrefix(p, w.module+"/"), n.Obj().Pos()
		}
		return n.Obj().Name(), false, n.Obj().Pos()
	}
	return "", false, token.NoPos
}

func (w *world) intern(name, kind string, piko bool, decl token.Pos) *mutex {
	if m, ok := w.byName[name]; ok {
		return m
	}
	m := &mutex{ID: len(w.mutexes), Name: name, Kind: kind, Piko: piko, Decl: w.pos(decl)}
	w.mutexes = append(w.mutexes, m)
	w.byName[name] = m
	return m
}

func inPiko(w *world, fn *ssa.Function) bool {
	for f := fn; f != nil; f = f.Parent() {
		if f.Pkg != nil {
			p := f.Pkg.Pkg.Path()
			return p == w.module || strings.HasPrefix(p, w.module+"/")
		}
		if f.Origin() != nil && f.Origin().Pkg != nil {
			p := f.Origin().Pkg.Pkg.Path()
			return p == w.module || strings.HasPrefix(p, w.module+"/")
		}
	}
	// synthetic wrappers ($bound, $thunk, promoted methods) have no package: decide by the wrapped object
	if fn.Object() != nil && fn.Object().Pkg() != nil {
		p := fn.Object().Pkg().Path()
		return p == w.module || strings.HasPrefix(p, w.module+"/")
	}
	return false
}

// resolve maps the receiver operand of a sync lock operation to a mutex identity.
func (w *world) resolve(fn *ssa.Function, v ssa.Value, kind string, depth int) *mutex {
	if depth > 6 {
		return nil
	}
	switch x := v.(type) {
	case *ssa.FieldAddr:
		st, ok := deref(x.X.Type()).Underlying().(*types.Struct)
		if !ok {
			return nil
		}
		fld := st.Field(x.Field)
		owner, piko, _ := w.typeOwner(x.X.Type())
		if owner == "" {
			// anonymous struct: name it by the place of the field declaration
			owner = "struct@" + w.pos(fld.Pos())
			piko = fld.Pkg() != nil && (fld.Pkg().Path() == w.module || strings.HasPrefix(fld.Pkg().Path(), w.module+"/"))
		}
		return w.intern(w.short(owner+"."+fld.Name()), kind, piko, fld.Pos())
	case *ssa.Field:
		return nil
	case *ssa.Global:
		p := x.Pkg.Pkg.Path()
		return w.intern(w.short(p+"."+x.Name()), kind, p == w.module || strings.HasPrefix(p, w.module+"/"), x.Pos())
	case *ssa.Alloc:
		// a local / heap allocated mutex: identified by its allocation site
		return w.intern(w.short("alloc@"+w.pos(x.Pos())+"("+x.Comment+")"), kind, inPiko(w, fn), x.Pos())
	case *ssa.UnOp:
		if x.Op == token.MUL { // load of a *sync.Mutex stored in a field / global: identify by that place
			return w.resolve(fn, x.X, kind, depth+1)
		}
	case *ssa.FreeVar:
		// captured variable: resolve through the MakeClosure of the enclosing function
		if par := fn.Parent(); par != nil {
			idx := -1
			for i, fv := range fn.FreeVars {
				if fv == x {
					idx = i
				}
			}
			for _, b := range par.Blocks {
				for _, in := range b.Instrs {
					if mc, ok := in.(*ssa.MakeClosure); ok && mc.Fn == fn && idx >= 0 && idx < len(mc.Bindings) {
						return w.resolve(par, mc.Bindings[idx], kind, depth+1)
					}
				}
			}
		}
	case *ssa.ChangeType:
		return w.resolve(fn, x.X, kind, depth+1)
	}
	return nil
}

// ---------------------------------------------------------------- per function facts

type set map[int]struct{}

func (s set) clone() set {
	c := make(set, len(s))
	for k := range s {
		c[k] = struct{}{}
	}
	return c
}

func (s set) addAll(o set) bool {
	ch := false
	for k := range o {
		if _, ok := s[k]; !ok {
			s[k] = struct{}{}
			ch = true
		}
	}
	return ch
}

func (s set) sorted() []int {
	r := make([]int, 0, len(s))
	for k := range s {
		r = append(r, k)
	}
	sort.Ints(r)
	return r
}

type lockSite struct {
	instr ssa.CallInstruction
	op    string // acq | rel
	m     *mutex
}

type funcInfo struct {
	fn        *ssa.Function
	lockSites map[ssa.Instruction]*lockSite
	direct    set // mutexes locked directly in the body
	exitNet   set // mutexes that may be held on return although not held on entry
	maxHeld   set // union of the held sets over all program points
	analysed  bool

	// acq: piko mutexes that may be acquired during a call of fn (transitively, including goroutines it
	// starts), with the next hop; acqSync: the same without following go statements
	acq     map[int]hop
	acqSync map[int]hop
}

type hop struct {
	site   ssa.CallInstruction // call site in fn (or the lock site itself when callee == nil)
	callee *ssa.Function
}

type edgeWitness struct {
	From, To  *mutex
	Holder    *ssa.Function
	HeldSince token.Pos
	HeldVia   string
	Site      token.Pos
	Kind      string // lock | call | go | defer
	Path      []string
}

func (w *world) isPrimitive(fn *ssa.Function) bool {
	op, _ := lockOp(fn)
	return op != ""
}

func (w *world) siteCallees(site ssa.CallInstruction) []*ssa.Function {
	c := site.Common()
	if sc := c.StaticCallee(); sc != nil {
		return []*ssa.Function{sc}
	}
	if _, ok := c.Value.(*ssa.Builtin); ok {
		return nil
	}
	return w.callees[site]
}

func (w *world) scan() {
	for _, fn := range w.funcs {
		fi := &funcInfo{fn: fn, lockSites: map[ssa.Instruction]*lockSite{}, direct: set{}, exitNet: set{}, maxHeld: set{}, acq: map[int]hop{}, acqSync: map[int]hop{}}
		w.info[fn] = fi
		if w.isPrimitive(fn) {
			continue
		}
		piko := inPiko(w, fn)
		for _, b := range fn.Blocks {
			for _, in := range b.Instrs {
				site, ok := in.(ssa.CallInstruction)
				if ok {
					if op, kind := lockOp(site.Common().StaticCallee()); op == "acq" || op == "rel" {
						m := w.resolve(fn, site.Common().Args[0], kind, 0)
						if m == nil {
							if piko {
								w.diag.Unresolved = append(w.diag.Unresolved, fmt.Sprintf("%s at %s (%T)", fn, w.pos(in.Pos()), site.Common().Args[0]))
							}
							m = w.intern(w.short("unresolved@"+w.pos(in.Pos())), kind, piko, in.Pos())
						}
						fi.lockSites[in] = &lockSite{instr: site, op: op, m: m}
						if op == "acq" {
							fi.direct[m.ID] = struct{}{}
						}
						continue
					}
					for _, g := range w.siteCallees(site) {
						if !w.isPrimitive(g) {
							_, isGo := in.(*ssa.Go)
							w.rev[g] = append(w.rev[g], revEdge{fn, site, isGo})
						}
					}
				}
				if piko {
					w.escapeCheck(fn, in)
				}
			}
		}
	}
}

// escapeCheck: the address of a piko mutex may only be used as the receiver of a direct sync lock operation
func (w *world) escapeCheck(fn *ssa.Function, in ssa.Instruction) {
	if _, isField := in.(*ssa.FieldAddr); isField {
		return
	}
	for _, op := range in.Operands(nil) {
		if op == nil || *op == nil {
			continue
		}
		v := *op
		k := ""
		if p, ok := v.Type().Underlying().(*types.Pointer); ok {
			k = isSyncMutexType(p.Elem())
		}
		if k == "" {
			continue
		}
		if site, ok := in.(ssa.CallInstruction); ok {
			if o, _ := lockOp(site.Common().StaticCallee()); (o == "acq" || o == "rel") && site.Common().Args[0] == v {
				continue
			}
		}
		if _, ok := in.(*ssa.DebugRef); ok {
			continue
		}
		w.diag.Escapes = append(w.diag.Escapes, fmt.Sprintf("%s at %s: %s", fn, w.pos(in.Pos()), in))
	}
}

// computeAcq: for every piko mutex m, the set of functions whose execution may (transitively) lock m.
// Backward breadth first search over the call graph from the direct lockers gives shortest witnesses.
func (w *world) computeAcq() {
	w.computeAcqMode(true)
	w.computeAcqMode(false)
}

func (w *world) computeAcqMode(followGo bool) {
	tab := func(fi *funcInfo) map[int]hop {
		if followGo {
			return fi.acq
		}
		return fi.acqSync
	}
	for _, m := range w.mutexes {
		if !m.Piko {
			continue
		}
		var queue []*ssa.Function
		for _, fn := range w.funcs {
			fi := w.info[fn]
			if _, ok := fi.direct[m.ID]; ok {
				var first ssa.CallInstruction
				for _, b := range fn.Blocks {
					for _, in := range b.Instrs {
						if ls := fi.lockSites[in]; ls != nil && ls.op == "acq" && ls.m == m && first == nil {
							first = ls.instr
						}
					}
				}
				tab(fi)[m.ID] = hop{site: first}
				queue = append(queue, fn)
			}
		}
		for len(queue) > 0 {
			g := queue[0]
			queue = queue[1:]
			for _, re := range w.rev[g] {
				if re.isGo && !followGo {
					continue
				}
				ci := w.info[re.caller]
				if _, ok := tab(ci)[m.ID]; ok {
					continue
				}
				tab(ci)[m.ID] = hop{site: re.site, callee: g}
				queue = append(queue, re.caller)
			}
		}
	}
}

func (w *world) acqPath(g *ssa.Function, m *mutex, sync bool) []string {
	var path []string
	seen := map[*ssa.Function]bool{}
	for g != nil && !seen[g] {
		seen[g] = true
		h, ok := w.info[g].acqSync[m.ID]
		if !sync {
			h, ok = w.info[g].acq[m.ID]
		}
		if !ok {
			break
		}
		if h.callee == nil {
			path = append(path, fmt.Sprintf("%s locks %s at %s", w.short(g.String()), m.Name, w.pos(h.site.Pos())))
			break
		}
		path = append(path, fmt.Sprintf("%s calls (%s)", w.short(g.String()), w.pos(h.site.Pos())))
		g = h.callee
	}
	return path
}

type heldInfo struct {
	since token.Pos
	via   string
}

type state struct {
	held map[int]heldInfo
	defU set // must-set of mutexes with a pending `defer Unlock`
	defL set // may-set of mutexes with a pending `defer Lock` (exotic)
	top  bool
}

func (s *state) clone() *state {
	c := &state{held: make(map[int]heldInfo, len(s.held)), defU: s.defU.clone(), defL: s.defL.clone()}
	for k, v := range s.held {
		c.held[k] = v
	}
	return c
}

// join other into s (s is the block's in state). returns true when s changed
func (s *state) join(o *state) bool {
	if s.top {
		*s = *o.clone()
		return true
	}
	ch := false
	for k, v := range o.held {
		if _, ok := s.held[k]; !ok {
			s.held[k] = v
			ch = true
		}
	}
	for k := range s.defU { // must: intersection
		if _, ok := o.defU[k]; !ok {
			delete(s.defU, k)
			ch = true
		}
	}
	if s.defL.addAll(o.defL) {
		ch = true
	}
	return ch
}

// per function: "holder acquires (directly or through what it calls) `to` while it holds `from`"
func (w *world) noteHolder(from int, to *mutex, holder *ssa.Function) {
	if w.holders == nil {
		w.holders = map[[3]string]bool{}
	}
	if w.mutexes[from].Piko && to.Piko && holder != nil {
		w.holders[[3]string{w.short(holder.String()), w.mutexes[from].Name, to.Name}] = true
	}
}

func (w *world) addEdge(from int, hi heldInfo, to *mutex, holder *ssa.Function, site token.Pos, kind string, path []string) {
	w.noteHolder(from, to, holder)
	key := [2]int{from, to.ID}
	if _, ok := w.edges[key]; ok {
		return
	}
	w.edges[key] = &edgeWitness{From: w.mutexes[from], To: to, Holder: holder, HeldSince: hi.since, HeldVia: hi.via,
		Site: site, Kind: kind, Path: path}
}

// analyse runs the flow-sensitive held-set analysis of one function; returns true when its exitNet grew
func (w *world) analyse(fi *funcInfo) bool {
	fn := fi.fn
	fi.analysed = true
	if len(fn.Blocks) == 0 {
		return false
	}
	piko := inPiko(w, fn)
	in := make([]*state, len(fn.Blocks))
	for i := range in {
		in[i] = &state{top: true}
	}
	in[0] = &state{held: map[int]heldInfo{}, defU: set{}, defL: set{}}
	if fn.Recover != nil {
		in[fn.Recover.Index] = &state{held: map[int]heldInfo{}, defU: set{}, defL: set{}}
	}
	work := []*ssa.BasicBlock{fn.Blocks[0]}
	if fn.Recover != nil {
		work = append(work, fn.Recover)
	}
	queued := map[int]bool{0: true}
	exit := set{}
	var deferred []ssa.CallInstruction
	seenDeferred := map[ssa.Instruction]bool{}

	callEffects := func(st *state, site ssa.CallInstruction, kind string) {
		callees := w.siteCallees(site)
		if len(st.held) > 0 {
			w.callsHeld++
			if _, isBuiltin := site.Common().Value.(*ssa.Builtin); len(callees) == 0 && !isBuiltin && piko {
				for h := range st.held {
					if w.mutexes[h].Piko {
						w.diag.NoCallee = appendUniq(w.diag.NoCallee, fmt.Sprintf("%s at %s: %s", fn, w.pos(site.Pos()), site))
						break
					}
				}
			}
			for _, g := range callees {
				if w.isPrimitive(g) {
					continue
				}
				gi := w.info[g]
				if gi == nil {
					continue
				}
				for mid := range gi.acq {
					to := w.mutexes[mid]
					_, sync := gi.acqSync[mid]
					k := kind
					if !sync && k != "go" {
						k = k + "+go" // only reachable through a go statement further down
					}
					var path []string
					for h, hi := range st.held {
						w.noteHolder(h, to, fn)
						if old, dup := w.edges[[2]int{h, mid}]; dup && !(strings.Contains(old.Kind, "go") && !strings.Contains(k, "go")) {
							continue
						}
						if path == nil {
							path = w.acqPath(g, to, sync)
						}
						delete(w.edges, [2]int{h, mid})
						w.addEdge(h, hi, to, fn, site.Pos(), k, path)
					}
				}
			}
		}
		if kind == "call" {
			for _, g := range callees {
				if gi := w.info[g]; gi != nil {
					for mid := range gi.exitNet {
						if _, ok := st.held[mid]; !ok {
							st.held[mid] = heldInfo{since: site.Pos(), via: "returned locked by " + w.short(g.String())}
						}
					}
				}
			}
		}
	}

	for len(work) > 0 {
		b := work[0]
		work = work[1:]
		queued[b.Index] = false
		st := in[b.Index].clone()
		for _, ins := range b.Instrs {
			fi.maxHeld.addAll(keys(st.held))
			if ls := fi.lockSites[ins]; ls != nil {
				_, isDefer := ins.(*ssa.Defer)
				switch {
				case isDefer && ls.op == "rel":
					st.defU[ls.m.ID] = struct{}{}
				case isDefer && ls.op == "acq":
					st.defL[ls.m.ID] = struct{}{}
					if piko {
						w.diag.DeferredLocks = appendUniq(w.diag.DeferredLocks, fmt.Sprintf("%s at %s", fn, w.pos(ins.Pos())))
					}
				case ls.op == "acq":
					for h, hi := range st.held {
						w.addEdge(h, hi, ls.m, fn, ins.Pos(), "lock", []string{fmt.Sprintf("%s locks %s at %s", w.short(fn.String()), ls.m.Name, w.pos(ins.Pos()))})
					}
					if _, ok := st.held[ls.m.ID]; !ok {
						st.held[ls.m.ID] = heldInfo{since: ins.Pos()}
					}
				case ls.op == "rel":
					if _, ok := st.held[ls.m.ID]; !ok && piko && ls.m.Piko {
						w.diag.UnheldUnlocks = appendUniq(w.diag.UnheldUnlocks, fmt.Sprintf("%s at %s unlocks %s", fn, w.pos(ins.Pos()), ls.m.Name))
					}
					delete(st.held, ls.m.ID)
				}
				continue
			}
			switch x := ins.(type) {
			case *ssa.Call:
				callEffects(st, x, "call")
			case *ssa.Go:
				if len(st.held) > 0 && piko {
					w.diag.GoWhileHolding = appendUniq(w.diag.GoWhileHolding, fmt.Sprintf("%s at %s", fn, w.pos(x.Pos())))
				}
				callEffects(st, x, "go")
			case *ssa.Defer:
				if !seenDeferred[x] {
					seenDeferred[x] = true
					deferred = append(deferred, x)
				}
			case *ssa.RunDefers:
				for k := range st.defL {
					if _, ok := st.held[k]; !ok {
						st.held[k] = heldInfo{since: x.Pos(), via: "deferred Lock"}
					}
				}
				for k := range st.defU {
					delete(st.held, k)
				}
			case *ssa.Return:
				// only piko mutexes are propagated to callers; for library mutexes the may-analysis of
				// conditional lock/unlock patterns is too coarse to be useful across returns, they are
				// tracked inside one function (and its callees) only
				for k := range st.held {
					if w.mutexes[k].Piko {
						exit[k] = struct{}{}
					}
				}
			}
		}
		for _, s := range b.Succs {
			if in[s.Index].join(st) && !queued[s.Index] {
				queued[s.Index] = true
				work = append(work, s)
			}
		}
	}
	// deferred (non lock) calls may run at any later point, in particular while unwinding a panic:
	// charge them with every mutex the function may hold anywhere.
	if len(deferred) > 0 && len(fi.maxHeld) > 0 {
		st := &state{held: map[int]heldInfo{}, defU: set{}, defL: set{}}
		for k := range fi.maxHeld {
			st.held[k] = heldInfo{via: "held somewhere in the function when the deferred call runs"}
		}
		for _, d := range deferred {
			callEffects(st, d, "defer")
		}
	}
	// what deferred calls return holding is added to the exit state as well
	for _, d := range deferred {
		for _, g := range w.siteCallees(d) {
			if gi := w.info[g]; gi != nil {
				exit.addAll(gi.exitNet)
			}
		}
	}
	grew := fi.exitNet.addAll(exit)
	return grew
}

func keys(m map[int]heldInfo) set {
	s := make(set, len(m))
	for k := range m {
		s[k] = struct{}{}
	}
	return s
}

func appendUniq(l []string, s string) []string {
	for _, x := range l {
		if x == s {
			return l
		}
	}
	return append(l, s)
}

func (w *world) run() int {
	// functions with lock operations first; callers of functions that return holding a lock are added
	// until nothing changes (exitNet only grows, the mutex set is finite).
	pending := map[*ssa.Function]bool{}
	for _, fn := range w.funcs {
		if len(w.info[fn].lockSites) > 0 {
			pending[fn] = true
		}
	}
	rounds := 0
	for len(pending) > 0 {
		rounds++
		var batch []*ssa.Function
		for fn := range pending {
			batch = append(batch, fn)
		}
		sort.Slice(batch, func(i, j int) bool { return batch[i].String() < batch[j].String() })
		pending = map[*ssa.Function]bool{}
		for _, fn := range batch {
			if w.analyse(w.info[fn]) {
				for _, re := range w.rev[fn] {
					pending[re.caller] = true
				}
				// a function whose callee set changed its own exit must be re-run as well (recursion)
				pending[fn] = true
			}
		}
		if rounds > 200 {
			fmt.Fprintln(os.Stderr, "lockorder: fixpoint did not stabilise")
			os.Exit(2)
		}
	}
	return rounds
}

// ---------------------------------------------------------------- output

type edgeOut struct {
	From      string   `json:"from"`
	To        string   `json:"to"`
	Holder    string   `json:"holder"`
	HeldSince string   `json:"held_since"`
	HeldVia   string   `json:"held_via,omitempty"`
	Site      string   `json:"site"`
	Kind      string   `json:"kind"`
	Path      []string `json:"path"`
}

type report struct {
	Module      string            `json:"module"`
	Patterns    []string          `json:"patterns"`
	CallGraph   string            `json:"callgraph"`
	Stats       map[string]int    `json:"stats"`
	TimingsMs   map[string]int64  `json:"timings_ms"`
	Mutexes     []*mutex          `json:"mutexes"`
	Edges       []edgeOut         `json:"edges"`
	Diagnostics diagnostics       `json:"diagnostics"`
	LockSites   map[string]string `json:"lock_sites"` // piko lock/unlock call sites -> mutex (for the dynamic validation)
	Holders     [][3]string       `json:"holders"`    // (function, held mutex, mutex acquired while it is held)
}

func coqString(s string) string { return "\"" + strings.ReplaceAll(s, "\"", "\"\"") + "\"" }

func main() {
	flag.Parse()
	if *flagRepo == "" {
		*flagRepo = "/repo"
	}
	repo, _ := filepath.Abs(*flagRepo)
	t0 := time.Now()
	tm := map[string]int64{}
	cfg := &packages.Config{Mode: packages.LoadAllSyntax, Dir: repo, Env: os.Environ(), Tests: false}
	patterns := strings.Fields(*flagPatterns)
	pkgs, err := packages.Load(cfg, patterns...)
	if err != nil {
		fmt.Fprintln(os.Stderr, "lockorder: load:", err)
		os.Exit(2)
	}
	if packages.PrintErrors(pkgs) > 0 {
		fmt.Fprintln(os.Stderr, "lockorder: the tree does not type-check")
		os.Exit(2)
	}
	tm["load"] = time.Since(t0).Milliseconds()
	prog, _ := ssautil.AllPackages(pkgs, ssa.InstantiateGenerics)
	prog.Build()
	tm["ssa"] = time.Since(t0).Milliseconds()
	all := ssautil.AllFunctions(prog)
	var cg *callgraph.Graph
	chag := cha.CallGraph(prog)
	nCha := 0
	for _, n := range chag.Nodes {
		nCha += len(n.Out)
	}
	tm["cha"] = time.Since(t0).Milliseconds()
	switch *flagCG {
	case "cha":
		cg = chag
	default:
		cg = vta.CallGraph(all, chag)
	}
	tm["callgraph"] = time.Since(t0).Milliseconds()

	w := &world{prog: prog, fset: prog.Fset, repo: repo, module: *flagModule, byName: map[string]*mutex{},
		callees: map[ssa.CallInstruction][]*ssa.Function{}, info: map[*ssa.Function]*funcInfo{},
		rev: map[*ssa.Function][]revEdge{}, edges: map[[2]int]*edgeWitness{}}
	nEdges := 0
	for _, n := range cg.Nodes {
		for _, e := range n.Out {
			if e.Site != nil && e.Callee.Func != nil {
				w.callees[e.Site] = append(w.callees[e.Site], e.Callee.Func)
				nEdges++
			}
		}
	}
	for fn := range all {
		w.funcs = append(w.funcs, fn)
	}
	names := make(map[*ssa.Function]string, len(w.funcs))
	for _, fn := range w.funcs {
		names[fn] = fn.String()
	}
	sort.Slice(w.funcs, func(i, j int) bool {
		if a, b := names[w.funcs[i]], names[w.funcs[j]]; a != b {
			return a < b
		}
		return w.funcs[i].Pos() < w.funcs[j].Pos()
	})
	w.scan()
	w.computeAcq()
	tm["scan"] = time.Since(t0).Milliseconds()
	rounds := w.run()
	tm["flow"] = time.Since(t0).Milliseconds()

	// ---- collect
	rep := report{Module: w.module, Patterns: patterns, CallGraph: *flagCG, TimingsMs: tm, LockSites: map[string]string{}}
	var pikoMutexes []*mutex
	for _, m := range w.mutexes {
		if m.Piko {
			pikoMutexes = append(pikoMutexes, m)
		}
	}
	sort.Slice(pikoMutexes, func(i, j int) bool { return pikoMutexes[i].Name < pikoMutexes[j].Name })
	rep.Mutexes = pikoMutexes
	var keysE [][2]int
	for k := range w.edges {
		keysE = append(keysE, k)
	}
	sort.Slice(keysE, func(i, j int) bool {
		a, b := w.edges[keysE[i]], w.edges[keysE[j]]
		if a.From.Name != b.From.Name {
			return a.From.Name < b.From.Name
		}
		return a.To.Name < b.To.Name
	})
	nForeignEdges := 0
	for _, k := range keysE {
		e := w.edges[k]
		if !e.To.Piko {
			nForeignEdges++
			continue
		}
		eo := edgeOut{From: e.From.Name, To: e.To.Name, Holder: w.short(e.Holder.String()), HeldSince: w.pos(e.HeldSince),
			HeldVia: e.HeldVia, Site: w.pos(e.Site), Kind: e.Kind, Path: e.Path}
		if !e.From.Piko {
			if strings.Contains(e.Kind, "go") {
				continue // the library only starts a goroutine while holding its lock
			}
			w.diag.ForeignToPiko = append(w.diag.ForeignToPiko, fmt.Sprintf("%s -> %s: %s holds it at %s; %s", e.From.Name, e.To.Name,
				eo.Holder, eo.Site, strings.Join(e.Path, " -> ")))
			continue
		}
		rep.Edges = append(rep.Edges, eo)
	}
	nLockFuncs := 0
	for _, fn := range w.funcs {
		fi := w.info[fn]
		if len(fi.lockSites) > 0 {
			nLockFuncs++
		}
		if inPiko(w, fn) {
			for in, ls := range fi.lockSites {
				if ls.m.Piko {
					rep.LockSites[w.pos(in.Pos())] = ls.m.Name
				}
			}
			if len(fi.exitNet) > 0 {
				var ns []string
				for _, id := range fi.exitNet.sorted() {
					ns = append(ns, w.mutexes[id].Name)
				}
				w.diag.Unbalanced = append(w.diag.Unbalanced, fmt.Sprintf("%s: %s", w.short(fn.String()), strings.Join(ns, ",")))
			}
		}
	}
	sort.Strings(w.diag.Unbalanced)
	sort.Strings(w.diag.Escapes)
	sort.Strings(w.diag.Unresolved)
	sort.Strings(w.diag.UnheldUnlocks)
	sort.Strings(w.diag.GoWhileHolding)
	sort.Strings(w.diag.NoCallee)
	rep.Diagnostics = w.diag
	rep.Stats = map[string]int{"packages_loaded": len(prog.AllPackages()), "functions": len(w.funcs), "cha_edges": nCha,
		"callgraph_edges": nEdges, "functions_with_lock_ops": nLockFuncs, "mutexes_all_modules": len(w.mutexes),
		"mutexes_piko": len(pikoMutexes), "edges_piko": len(rep.Edges), "edges_to_library_mutexes": nForeignEdges,
		"fixpoint_rounds": rounds, "calls_made_while_holding": w.callsHeld}
	tm["total"] = time.Since(t0).Milliseconds()

	if *flagCoq != "" {
		var sb strings.Builder
		sb.WriteString("(* GENERATED by /verif/harness/lockorder (x/tools SSA + CHA/VTA call graph) from the current piko\n")
		sb.WriteString("   source tree - do not edit; props/C20.py rewrites this file on every run.\n")
		sb.WriteString("   lock_edges = the relation \"the second mutex may be acquired while the first is held\";\n")
		sb.WriteString("   mutex identity = (struct type, field). One witness per edge is given in the comments below. *)\n")
		sb.WriteString("From Coq Require Import List String.\nImport ListNotations.\nOpen Scope string_scope.\n\n")
		sb.WriteString("Definition lock_mutexes : list string :=\n  [")
		for i, m := range pikoMutexes {
			if i > 0 {
				sb.WriteString(";\n   ")
			}
			sb.WriteString(" " + coqString(m.Name))
		}
		sb.WriteString(" ].\n\nDefinition lock_edges : list (string * string) :=\n  [")
		for i, e := range rep.Edges {
			if i > 0 {
				sb.WriteString(";\n   ")
			}
			sb.WriteString(" (" + coqString(e.From) + ", " + coqString(e.To) + ")")
		}
		sb.WriteString(" ].\n\n")
		// (function, held mutex, acquired mutex): the function acquires the second mutex - itself or through a call - at a
		// point where it holds the first. "(^T).M" stands for the method M of *T.
		var hs [][3]string
		for h := range w.holders {
			hs = append(hs, h)
		}
		sort.Slice(hs, func(i, j int) bool {
			for k := 0; k < 3; k++ {
				if hs[i][k] != hs[j][k] {
					return hs[i][k] < hs[j][k]
				}
			}
			return false
		})
		rep.Holders = hs
		sb.WriteString("Definition lock_holders : list (string * string * string) :=\n  [")
		for i, h := range hs {
			if i > 0 {
				sb.WriteString(";\n   ")
			}
			fn := strings.ReplaceAll(strings.ReplaceAll(h[0], "(*", "(^"), "*)", "^)")
			sb.WriteString(" (" + coqString(fn) + ", " + coqString(h[1]) + ", " + coqString(h[2]) + ")")
		}
		sb.WriteString(" ].\n\n")
		for _, e := range rep.Edges {
			c := fmt.Sprintf("(* %s -> %s\n     held: %s locked it at %s%s\n     then (%s at %s): %s *)\n", e.From, e.To, e.Holder, e.HeldSince,
				map[bool]string{true: " [" + e.HeldVia + "]", false: ""}[e.HeldVia != ""], e.Kind, e.Site, strings.Join(e.Path, "\n       -> "))
			// function names such as (*T).M must not open or close a Coq comment
			body := strings.TrimSuffix(strings.TrimPrefix(c, "(* "), " *)\n")
			body = strings.ReplaceAll(strings.ReplaceAll(body, "(*", "(^"), "*)", "^)")
			sb.WriteString("(* " + strings.ReplaceAll(body, "\"", "'") + " *)\n")
		}
		if err := os.WriteFile(*flagCoq, []byte(sb.String()), 0o644); err != nil {
			fmt.Fprintln(os.Stderr, err)
			os.Exit(2)
		}
	}
	if *flagJSON != "" {
		b, _ := json.MarshalIndent(rep, "", " ")
		if err := os.WriteFile(*flagJSON, b, 0o644); err != nil {
			fmt.Fprintln(os.Stderr, err)
			os.Exit(2)
		}
	}
	fmt.Printf("lockorder: %d piko mutexes, %d edges, %d functions, %d ms\n", len(pikoMutexes), len(rep.Edges), len(w.funcs), tm["total"])
}
