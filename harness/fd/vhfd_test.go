//go:build verif

package gossip

// Verification harness for property C12 (failure detector). Drives the REAL accrualFailureDetector
// (ReportWithTimestamp / SuspicionLevelAt / Remove) with scripted timestamps and records, after every
// call, the integer state of the touched peer's arrival window and the returned level (as the IEEE
// bit pattern of the float64). Injected with `go test -overlay`; never part of /repo.

import (
	"encoding/hex"
	"encoding/json"
	"fmt"
	"math"
	"os"
	"testing"
	"time"
)

type vhfdCase struct {
	ID        string    `json:"id"`
	Window    int       `json:"window"`
	Bootstrap int64     `json:"bootstrap"`
	IDs       []string  `json:"ids"` // hex
	Ops       [][]int64 `json:"ops"` // [kind, peer index, unix nanos]; kind 0 report, 1 level, 2 remove
}

type vhfdOut struct {
	ID      string   `json:"id"`
	Present []int    `json:"present"`
	Sum     []int64  `json:"sum"`
	Size    []int    `json:"size"`
	Last    []int64  `json:"last"`
	Bits    []uint64 `json:"bits"`   // math.Float64bits of the returned level (level ops only, else 0)
	OpPanic []string `json:"oppanic"` // panic message of the call ("" = none)
	Panic   string   `json:"panic"`   // harness-level failure
}

func vhfdLevel(d *accrualFailureDetector, id string, ts time.Time) (phi float64, msg string) {
	defer func() {
		if r := recover(); r != nil {
			msg = fmt.Sprint(r)
			if msg == "" {
				msg = "panic"
			}
		}
	}()
	return d.SuspicionLevelAt(id, ts), ""
}

func vhfdReport(d *accrualFailureDetector, id string, ts time.Time) (msg string) {
	defer func() {
		if r := recover(); r != nil {
			msg = fmt.Sprint(r)
			if msg == "" {
				msg = "panic"
			}
		}
	}()
	d.ReportWithTimestamp(id, ts)
	return ""
}

func vhfdRun(c vhfdCase) (out vhfdOut) {
	out.ID = c.ID
	defer func() {
		if r := recover(); r != nil {
			out.Panic = fmt.Sprint(r)
		}
	}()
	ids := make([]string, len(c.IDs))
	for i, h := range c.IDs {
		b, err := hex.DecodeString(h)
		if err != nil {
			panic("bad hex id")
		}
		ids[i] = string(b)
	}
	d := newAccrualFailureDetector(time.Duration(c.Bootstrap), c.Window)
	for _, op := range c.Ops {
		if len(op) != 3 || op[1] < 0 || int(op[1]) >= len(ids) {
			panic("bad op")
		}
		id := ids[op[1]]
		ts := time.Unix(0, op[2])
		var bits uint64
		msg := ""
		switch op[0] {
		case 0:
			msg = vhfdReport(d, id, ts)
		case 1:
			var phi float64
			phi, msg = vhfdLevel(d, id, ts)
			if msg == "" {
				bits = math.Float64bits(phi)
			}
		case 2:
			d.Remove(id)
		default:
			panic("bad op kind")
		}
		// the mutex must be free again after every call (also after a panic inside the detector)
		if !d.mu.TryLock() {
			panic("detector mutex left locked")
		}
		w, ok := d.windows[id]
		if ok {
			out.Present = append(out.Present, 1)
			out.Sum = append(out.Sum, w.intervals.sum)
			out.Size = append(out.Size, w.intervals.size())
			out.Last = append(out.Last, w.lastTimestamp.UnixNano())
		} else {
			out.Present = append(out.Present, 0)
			out.Sum = append(out.Sum, 0)
			out.Size = append(out.Size, 0)
			out.Last = append(out.Last, 0)
		}
		d.mu.Unlock()
		out.Bits = append(out.Bits, bits)
		out.OpPanic = append(out.OpPanic, msg)
	}
	return out
}

func TestVerifHarness_FD(t *testing.T) {
	inPath, outPath := os.Getenv("VERIF_IN"), os.Getenv("VERIF_OUT")
	if inPath == "" {
		t.Skip("VERIF_IN not set")
	}
	raw, err := os.ReadFile(inPath)
	if err != nil {
		t.Fatal(err)
	}
	var in struct {
		Cases []vhfdCase `json:"cases"`
	}
	if err := json.Unmarshal(raw, &in); err != nil {
		t.Fatal(err)
	}
	res := make([]vhfdOut, len(in.Cases))
	for i := range in.Cases {
		res[i] = vhfdRun(in.Cases[i])
	}
	b, err := json.Marshal(map[string]any{"cases": res})
	if err != nil {
		t.Fatal(err)
	}
	if err := os.WriteFile(outPath, b, 0o644); err != nil {
		t.Fatal(err)
	}
}
