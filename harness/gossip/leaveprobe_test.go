//go:build verif

package gossip

// Verification harness: who a node talks to. (1) the REAL Gossip.Leave on a node whose peers listen on real loopback
// stream ports (so the real dialer reaches them), some of them departed, some suspected, some with their stream port
// closed; (2) the REAL Gossip.gossipRound on the same membership. Records the node's membership as the code sees it, the
// peers that hold the leaver as left afterwards, the error Leave returned, and the destinations of every round.

import (
	"encoding/json"
	"fmt"
	"net"
	"os"
	"sync"
	"testing"
	"time"

	"github.com/andydunstall/piko/pkg/log"
)

type vhLpCase struct {
	ID      string `json:"id"`
	N       int    `json:"n"`       // peers of node 0
	Left    []int  `json:"left"`    // peers (1..N) that have left (node 0 was told)
	Unreach []int  `json:"unreach"` // peers node 0 suspects
	Closed  []int  `json:"closed"`  // peers whose stream port is closed when node 0 leaves
	Rounds  int    `json:"rounds"`  // gossip rounds node 0 runs before it leaves
	Leave   bool   `json:"leave"`
}

type vhLpMember struct {
	ID      string `json:"id"`
	Addr    string `json:"addr"`
	Left    bool   `json:"left"`
	Unreach bool   `json:"unreach"`
}

type vhLpOut struct {
	ID      string       `json:"id"`
	Local   string       `json:"local"`
	Members []vhLpMember `json:"members"` // node 0's state when the rounds / the leave start
	Rounds  [][]string   `json:"rounds"`  // destination addresses per round
	Told    []string     `json:"told"`    // ids of the peers that hold node 0 as left after Leave
	Tried   []string     `json:"tried"`   // ids of the peers whose stream port saw a connection during Leave
	Err     string       `json:"err"`
	LeaveMs int64        `json:"leave_ms"`
	Panic   string       `json:"panic"`
}

type vhLpNode struct {
	id, addr string
	st       *clusterState
	fd       *vhFD
	sl       *streamListener
	ln       *vhCountingListener
	g        *Gossip
	sent     []vhPacket
}

// counts the connections accepted from a given moment on
type vhCountingListener struct {
	net.Listener
	mu sync.Mutex
	n  int
}

func (l *vhCountingListener) Accept() (net.Conn, error) {
	c, err := l.Listener.Accept()
	if err == nil {
		l.mu.Lock()
		l.n++
		l.mu.Unlock()
	}
	return c, err
}

func vhLpNewNode(i int) *vhLpNode {
	ln, err := net.Listen("tcp", "127.0.0.1:0")
	if err != nil {
		panic(err)
	}
	n := &vhLpNode{id: fmt.Sprintf("node-%d", i), addr: ln.Addr().String()}
	n.fd = &vhFD{levels: map[string]float64{}}
	metrics := newMetrics()
	n.st = newClusterState(n.id, n.addr, n.fd, metrics, &nopWatcher{})
	n.ln = &vhCountingListener{Listener: ln}
	n.sl = newStreamListener(n.ln, n.st, time.Second*5, metrics, log.NewNopLogger())
	go n.sl.Serve()
	n.g = &Gossip{
		state:      n.st,
		config:     &Config{BindAddr: n.addr, AdvertiseAddr: n.addr, Interval: time.Hour, MaxPacketSize: 1400},
		dialer:     &net.Dialer{Timeout: time.Second * 5},
		packetConn: &vhPacketConn{sent: &n.sent},
		metrics:    metrics,
		logger:     log.NewNopLogger(),
	}
	return n
}

func vhLpHas(l []int, x int) bool {
	for _, y := range l {
		if y == x {
			return true
		}
	}
	return false
}

func vhLpRun(c vhLpCase) (out vhLpOut) {
	out.ID = c.ID
	out.Rounds = [][]string{}
	out.Told, out.Tried, out.Members = []string{}, []string{}, []vhLpMember{}
	defer func() {
		if r := recover(); r != nil {
			out.Panic = fmt.Sprint(r)
		}
	}()
	nodes := []*vhLpNode{}
	for i := 0; i <= c.N; i++ {
		nodes = append(nodes, vhLpNewNode(i))
	}
	defer func() {
		for _, n := range nodes {
			n.sl.Close()
		}
	}()
	me := nodes[0]
	out.Local = me.id
	me.st.UpsertLocal("k", "v")
	for i := 1; i <= c.N; i++ {
		nodes[i].st.UpsertLocal("k", fmt.Sprintf("v%d", i))
		if _, err := me.g.join(nodes[i].addr); err != nil {
			panic("join: " + err.Error())
		}
	}
	for i := 1; i <= c.N; i++ {
		if vhLpHas(c.Left, i) {
			nodes[i].st.LeaveLocal()
			if err := nodes[i].g.leave(me.addr); err != nil {
				panic("leave: " + err.Error())
			}
		}
	}
	lv := map[string]float64{}
	for i := 1; i <= c.N; i++ {
		if vhLpHas(c.Unreach, i) {
			lv[nodes[i].id] = 1e9
		}
	}
	me.fd.mu.Lock()
	me.fd.levels = lv
	me.fd.mu.Unlock()
	me.st.UpdateLiveness(float64(suspicionThreshold))

	me.st.mu.Lock()
	for id, s := range me.st.nodes {
		out.Members = append(out.Members, vhLpMember{ID: id, Addr: s.Addr, Left: s.Left, Unreach: s.Unreachable})
	}
	me.st.mu.Unlock()

	for r := 0; r < c.Rounds; r++ {
		me.sent = nil
		if err := me.g.gossipRound(); err != nil {
			panic("gossipRound: " + err.Error())
		}
		dsts := []string{}
		for _, p := range me.sent {
			dsts = append(dsts, p.Dst)
		}
		out.Rounds = append(out.Rounds, dsts)
	}
	if !c.Leave {
		return out
	}
	for i := 1; i <= c.N; i++ {
		if vhLpHas(c.Closed, i) {
			nodes[i].sl.Close()
		}
		nodes[i].ln.mu.Lock()
		nodes[i].ln.n = 0
		nodes[i].ln.mu.Unlock()
	}
	t0 := time.Now()
	done := make(chan error, 1)
	go func() {
		defer func() {
			if r := recover(); r != nil {
				done <- fmt.Errorf("panic: %v", r)
			}
		}()
		done <- me.g.Leave()
	}()
	select {
	case err := <-done:
		if err != nil {
			out.Err = err.Error()
		}
	case <-time.After(60 * time.Second):
		out.Panic = "Leave did not return within 60 s"
		return out
	}
	out.LeaveMs = time.Since(t0).Milliseconds()
	for i := 1; i <= c.N; i++ {
		if s, ok := nodes[i].st.Node(me.id); ok && s.Left {
			out.Told = append(out.Told, nodes[i].id)
		}
		nodes[i].ln.mu.Lock()
		if nodes[i].ln.n > 0 {
			out.Tried = append(out.Tried, nodes[i].id)
		}
		nodes[i].ln.mu.Unlock()
	}
	return out
}

func TestVerifHarness_LeaveProbe(t *testing.T) {
	in := os.Getenv("VERIF_IN")
	if in == "" {
		t.Skip("VERIF_IN not set")
	}
	raw, err := os.ReadFile(in)
	if err != nil {
		t.Fatal(err)
	}
	var cases []vhLpCase
	if err := json.Unmarshal(raw, &cases); err != nil {
		t.Fatal(err)
	}
	outs := make([]vhLpOut, len(cases))
	var wg sync.WaitGroup
	sem := make(chan struct{}, 8)
	for i := range cases {
		wg.Add(1)
		sem <- struct{}{}
		go func(i int) {
			defer wg.Done()
			defer func() { <-sem }()
			outs[i] = vhLpRun(cases[i])
		}(i)
	}
	wg.Wait()
	b, _ := json.Marshal(outs)
	if err := os.WriteFile(os.Getenv("VERIF_OUT"), b, 0o644); err != nil {
		t.Fatal(err)
	}
}
