//go:build verif

package gossip

// Verification harness (C20): the REAL Gossip.scheduleFunc with scripted intervals, including intervals below one
// millisecond (Config.Validate accepts every non-zero interval). Records whether the scheduling goroutine panicked, how
// often the task ran within the observation window and the gaps between consecutive runs.

import (
	"encoding/json"
	"fmt"
	"os"
	"sync"
	"testing"
	"time"
)

type vhSchedCase struct {
	ID         string `json:"id"`
	IntervalNs int64  `json:"interval_ns"`
	WindowMs   int    `json:"window_ms"`
}

type vhSchedOut struct {
	ID       string  `json:"id"`
	Valid    bool    `json:"valid"`    // Config.Validate accepts the interval
	Panic    string  `json:"panic"`    // panic on the scheduling goroutine
	Runs     int     `json:"runs"`     // how often the task ran
	GapsNs   []int64 `json:"gaps_ns"`  // time between consecutive runs (first: since the start)
	Returned bool    `json:"returned"` // scheduleFunc returned after the shutdown signal
}

func vhSchedRun(c vhSchedCase) (out vhSchedOut) {
	out.ID = c.ID
	out.GapsNs = []int64{}
	conf := &Config{BindAddr: "127.0.0.1:1", Interval: time.Duration(c.IntervalNs), MaxPacketSize: 1400}
	out.Valid = conf.Validate() == nil
	g := &Gossip{config: conf, shutdownCh: make(chan struct{})}
	var mu sync.Mutex
	last := time.Now()
	done := make(chan struct{})
	go func() {
		defer close(done)
		defer func() {
			if r := recover(); r != nil {
				mu.Lock()
				out.Panic = fmt.Sprint(r)
				mu.Unlock()
			}
		}()
		g.scheduleFunc(time.Duration(c.IntervalNs), func() {
			mu.Lock()
			now := time.Now()
			out.Runs++
			if len(out.GapsNs) < 64 {
				out.GapsNs = append(out.GapsNs, int64(now.Sub(last)))
			}
			last = now
			mu.Unlock()
		})
	}()
	select {
	case <-done:
	case <-time.After(time.Duration(c.WindowMs) * time.Millisecond):
	}
	close(g.shutdownCh)
	select {
	case <-done:
		out.Returned = true
	case <-time.After(5 * time.Second):
	}
	mu.Lock()
	defer mu.Unlock()
	return vhSchedOut{ID: out.ID, Valid: out.Valid, Panic: out.Panic, Runs: out.Runs, GapsNs: append([]int64{}, out.GapsNs...), Returned: out.Returned}
}

func TestVerifHarness_Sched(t *testing.T) {
	in := os.Getenv("VERIF_IN")
	if in == "" {
		t.Skip("VERIF_IN not set")
	}
	raw, err := os.ReadFile(in)
	if err != nil {
		t.Fatal(err)
	}
	var cases []vhSchedCase
	if err := json.Unmarshal(raw, &cases); err != nil {
		t.Fatal(err)
	}
	outs := make([]vhSchedOut, len(cases))
	var wg sync.WaitGroup
	for i := range cases {
		wg.Add(1)
		go func(i int) {
			defer wg.Done()
			outs[i] = vhSchedRun(cases[i])
		}(i)
	}
	wg.Wait()
	b, _ := json.Marshal(outs)
	if err := os.WriteFile(os.Getenv("VERIF_OUT"), b, 0o644); err != nil {
		t.Fatal(err)
	}
}
