//go:build verif

// Verification harness for pkg/gossip (world machinery). Injected into the package with
// `go test -overlay` (never copied into /repo). Drives the REAL clusterState / packetListener /
// streamListener / Gossip.gossip on op scripts and records what they did. Non-test file so that the
// harness of server/gossip (real syncer + cluster.State on top of the real gossip state) can reuse it.
package gossip

import (
	"encoding/hex"
	"encoding/json"
	"fmt"
	"net"
	"sort"
	"sync"
	"sync/atomic"
	"time"

	"github.com/andydunstall/piko/pkg/log"
)

type vhEntry struct {
	K   string `json:"k"`
	V   string `json:"v"`
	Ver uint64 `json:"ver"`
	Int bool   `json:"int"`
	Del bool   `json:"del"`
}

type vhView struct {
	N       int       `json:"n"`
	ID      string    `json:"id"`
	Present bool      `json:"present"`
	Addr    string    `json:"addr"`
	Ver     uint64    `json:"ver"`
	Left    bool      `json:"left"`
	Unreach bool      `json:"unreach"`
	Expiry  int64     `json:"expiry"`
	Entries []vhEntry `json:"entries"`
}

type vhSummary struct {
	N     int      `json:"n"`
	Nodes []string `json:"nodes"` // "id|ver|nentries|left|unreach|expiryset"
}

type vhEvent struct {
	N    int    `json:"n"`
	Kind string `json:"kind"`
	ID   string `json:"id"`
	K    string `json:"k"`
	V    string `json:"v"`
}

type vhPacket struct {
	Dst   string `json:"dst"`
	Bytes string `json:"bytes"`
}

type vhObs struct {
	Views   []vhView         `json:"views"`
	Summary []vhSummary      `json:"summary"`
	Events  []vhEvent        `json:"events"`
	Sent    []vhPacket       `json:"sent"`
	Err     string           `json:"err"`
	Nows    map[string]int64 `json:"nows"`
	T       int64            `json:"t"`
	Skipped bool             `json:"skipped"`
	Order   []string         `json:"order"`
	Idx     int              `json:"idx"`
	Extra   map[string]any   `json:"extra,omitempty"`
}

type vhOp struct {
	Op     string             `json:"op"`
	N      int                `json:"n"`
	A      int                `json:"a"`
	B      int                `json:"b"`
	K      string             `json:"k"`
	V      string             `json:"v"`
	Th     int                `json:"th"`
	Max    int                `json:"max"`
	I      int                `json:"i"`
	Levels map[string]float64 `json:"levels"`
	Ref    string             `json:"ref"`
	D      int64              `json:"d"`
	Bytes  string             `json:"bytes"`
	E      string             `json:"e"`
}

type vhNodeSpec struct {
	ID   string `json:"id"`
	Addr string `json:"addr"`
}

type vhCase struct {
	ID    string       `json:"id"`
	Nodes []vhNodeSpec `json:"nodes"`
	Ops   []vhOp       `json:"ops"`
	// RealFD > 0: every node uses the real accrual failure detector (bootstrap interval RealFD ms, 50 samples, as
	// gossip.New wires it) behind a virtual clock that only the "tick" op advances
	RealFD int64 `json:"realfd"`
}

type vhCaseOut struct {
	ID    string  `json:"id"`
	Obs   []vhObs `json:"obs"`
	Panic string  `json:"panic"`
}

func vhHex(s string) string { return hex.EncodeToString([]byte(s)) }
func vhUnhex(s string) string {
	b, err := hex.DecodeString(s)
	if err != nil {
		panic("bad hex: " + s)
	}
	return string(b)
}

// ---- recording watcher ----
type vhWatcher struct {
	n      int
	events *[]vhEvent
}

// the real code calls its watcher with the state lock held; should a callback ever run outside it (and concurrently),
// the recording must not be the thing that breaks
var vhEvMu sync.Mutex

// slow-watcher mode of the concurrency probes: a callback of the named kind ("all" = every kind) takes this long before it
// is recorded. The real code calls its watcher with the state lock held, so a slow subscriber delays everybody but can
// never be overtaken; a callback that runs outside the lock is overtaken by the state changes of other goroutines.
var vhSlowKind atomic.Value // string
var vhSlowNs atomic.Int64

func (w *vhWatcher) add(kind, id, k, v string) {
	if d := vhSlowNs.Load(); d > 0 {
		if sk, _ := vhSlowKind.Load().(string); sk == "all" || sk == kind {
			time.Sleep(time.Duration(d))
		}
	}
	vhEvMu.Lock()
	defer vhEvMu.Unlock()
	*w.events = append(*w.events, vhEvent{N: w.n, Kind: kind, ID: vhHex(id), K: vhHex(k), V: vhHex(v)})
}
func (w *vhWatcher) OnJoin(id string)           { w.add("join", id, "", "") }
func (w *vhWatcher) OnLeave(id string)          { w.add("leave", id, "", "") }
func (w *vhWatcher) OnReachable(id string)      { w.add("reach", id, "", "") }
func (w *vhWatcher) OnUnreachable(id string)    { w.add("unreach", id, "", "") }
func (w *vhWatcher) OnUpsertKey(id, k, v string) { w.add("upsert", id, k, v) }
func (w *vhWatcher) OnDeleteKey(id, k string)   { w.add("delete", id, k, "") }
func (w *vhWatcher) OnExpired(id string)        { w.add("expired", id, "", "") }

// ---- scripted failure detector ----
type vhFD struct {
	mu      sync.Mutex
	levels  map[string]float64
	reports []string
	removed []string
	// real-detector mode (case.RealFD): the REAL accrualFailureDetector behind a virtual clock; every call is recorded
	real  *accrualFailureDetector
	clock time.Time
	calls []string           // "report|<hexid>|<ns>", "level|<hexid>|<ns>|<value>", "remove|<hexid>"
	asked map[string]float64 // levels answered since the last reset
}

func (d *vhFD) Report(id string) {
	d.mu.Lock()
	defer d.mu.Unlock()
	d.reports = append(d.reports, id)
	if d.real != nil {
		d.real.ReportWithTimestamp(id, d.clock)
		d.calls = append(d.calls, fmt.Sprintf("report|%s|%d", vhHex(id), d.clock.UnixNano()))
	}
}
func (d *vhFD) SuspicionLevel(id string) float64 {
	d.mu.Lock()
	defer d.mu.Unlock()
	if d.real != nil {
		l := d.real.SuspicionLevelAt(id, d.clock)
		d.calls = append(d.calls, fmt.Sprintf("level|%s|%d|%g", vhHex(id), d.clock.UnixNano(), l))
		if d.asked == nil {
			d.asked = map[string]float64{}
		}
		d.asked[vhHex(id)] = l
		return l
	}
	return d.levels[id]
}
func (d *vhFD) Remove(id string) {
	d.mu.Lock()
	defer d.mu.Unlock()
	d.removed = append(d.removed, id)
	if d.real != nil {
		d.real.Remove(id)
		d.calls = append(d.calls, "remove|"+vhHex(id))
	}
}

// ---- in-memory packet conn: the simulated network ----
type vhPacketConn struct {
	sent *[]vhPacket
}

func (c *vhPacketConn) ReadFrom(p []byte) (int, net.Addr, error) { select {} }
func (c *vhPacketConn) WriteTo(p []byte, addr net.Addr) (int, error) {
	*c.sent = append(*c.sent, vhPacket{Dst: addr.String(), Bytes: hex.EncodeToString(p)})
	return len(p), nil
}
func (c *vhPacketConn) Close() error                       { return nil }
func (c *vhPacketConn) LocalAddr() net.Addr                { return &net.UDPAddr{} }
func (c *vhPacketConn) SetDeadline(t time.Time) error      { return nil }
func (c *vhPacketConn) SetReadDeadline(t time.Time) error  { return nil }
func (c *vhPacketConn) SetWriteDeadline(t time.Time) error { return nil }

// queue-backed packet conn for the serve_burst op: ReadFrom hands out the queued datagrams one after the other
type vhQueueConn struct {
	in   chan []byte
	idle chan struct{}
	mu   sync.Mutex
	sent []vhPacket
}

func (c *vhQueueConn) ReadFrom(p []byte) (int, net.Addr, error) {
	c.idle <- struct{}{}
	b, ok := <-c.in
	if !ok {
		return 0, nil, net.ErrClosed
	}
	return copy(p, b), &net.UDPAddr{IP: net.IPv4(127, 0, 0, 1), Port: 1}, nil
}
func (c *vhQueueConn) WriteTo(p []byte, addr net.Addr) (int, error) {
	c.mu.Lock()
	defer c.mu.Unlock()
	c.sent = append(c.sent, vhPacket{Dst: addr.String(), Bytes: hex.EncodeToString(p)})
	return len(p), nil
}
func (c *vhQueueConn) Close() error                       { return nil }
func (c *vhQueueConn) LocalAddr() net.Addr                { return &net.UDPAddr{} }
func (c *vhQueueConn) SetDeadline(t time.Time) error      { return nil }
func (c *vhQueueConn) SetReadDeadline(t time.Time) error  { return nil }
func (c *vhQueueConn) SetWriteDeadline(t time.Time) error { return nil }

type vhNode struct {
	idx      int
	id, addr string
	state    *clusterState
	fd       *vhFD
	pl       *packetListener
	sl       *streamListener
	g        *Gossip
	slAddr   string
	last     map[string]string // last dumped view fingerprint per node id
}

type vhWorld struct {
	nodes    []*vhNode
	inflight []vhPacket
	events   []vhEvent
	sent     []vhPacket
	hooks    *VhHooks
}

// VhHooks lets a harness in another package (server/gossip) stack real components on the real gossip state.
type VhHooks struct {
	// Watcher returns an additional watcher for node idx that is called after the recording watcher.
	Watcher func(idx int, id, addr string) Watcher
	// Ready is called once per node with the node's real state as a gossiper (UpsertLocal/DeleteLocal).
	Ready func(idx int, g VhGossiper)
	// ExtraOp executes an op this package does not know; returns false if unknown to the hook too.
	ExtraOp func(op VhOp, idx int) bool
	// Extra returns extra observations of node idx (appended to the step's "extra" under "hook").
	Extra func(idx int) any
}

// VhGossiper is the part of the gossip API the syncer uses.
type VhGossiper interface {
	UpsertLocal(key, value string)
	DeleteLocal(key string)
}

type (
	VhOp      = vhOp
	VhCase    = vhCase
	VhCaseOut = vhCaseOut
)

// VhRunCase runs one case with hooks (exported entry for other packages' harnesses).
func VhRunCase(c VhCase, hooks *VhHooks) VhCaseOut { return vhRunCaseH(c, hooks) }

type vhTee struct{ a, b Watcher }

func (t *vhTee) OnJoin(id string)              { t.a.OnJoin(id); t.b.OnJoin(id) }
func (t *vhTee) OnLeave(id string)             { t.a.OnLeave(id); t.b.OnLeave(id) }
func (t *vhTee) OnReachable(id string)         { t.a.OnReachable(id); t.b.OnReachable(id) }
func (t *vhTee) OnUnreachable(id string)       { t.a.OnUnreachable(id); t.b.OnUnreachable(id) }
func (t *vhTee) OnUpsertKey(id, k, v string)   { t.a.OnUpsertKey(id, k, v); t.b.OnUpsertKey(id, k, v) }
func (t *vhTee) OnDeleteKey(id, k string)      { t.a.OnDeleteKey(id, k); t.b.OnDeleteKey(id, k) }
func (t *vhTee) OnExpired(id string)           { t.a.OnExpired(id); t.b.OnExpired(id) }

func vhNewWorld(specs []vhNodeSpec) *vhWorld { return vhNewWorldH(specs, nil) }

func vhNewWorldH(specs []vhNodeSpec, hooks *VhHooks) *vhWorld { return vhNewWorldFD(specs, hooks, 0) }

func vhNewWorldFD(specs []vhNodeSpec, hooks *VhHooks, realFD int64) *vhWorld {
	w := &vhWorld{hooks: hooks}
	for i, sp := range specs {
		id, addr := vhUnhex(sp.ID), vhUnhex(sp.Addr)
		fd := &vhFD{levels: map[string]float64{}}
		if realFD > 0 {
			fd.real = newAccrualFailureDetector(time.Duration(realFD)*time.Millisecond, 50)
			fd.clock = time.Unix(1700000000, 0)
		}
		metrics := newMetrics()
		var watcher Watcher = &vhWatcher{n: i, events: &w.events}
		if hooks != nil && hooks.Watcher != nil {
			watcher = &vhTee{a: watcher, b: hooks.Watcher(i, id, addr)}
		}
		st := newClusterState(id, addr, fd, metrics, watcher)
		pc := &vhPacketConn{sent: &w.sent}
		pl := newPacketListener(pc, st, fd, 1400, metrics, log.NewNopLogger())
		ln, err := net.Listen("tcp", "127.0.0.1:0")
		if err != nil {
			panic(err)
		}
		sl := newStreamListener(ln, st, time.Second*5, metrics, log.NewNopLogger())
		go sl.Serve()
		g := &Gossip{
			state:      st,
			config:     &Config{BindAddr: addr, AdvertiseAddr: addr, Interval: time.Hour, MaxPacketSize: 1400},
			dialer:     &net.Dialer{Timeout: time.Second * 5},
			packetConn: pc,
			metrics:    metrics,
			logger:     log.NewNopLogger(),
		}
		w.nodes = append(w.nodes, &vhNode{
			idx: i, id: id, addr: addr, state: st, fd: fd, pl: pl, sl: sl, g: g,
			slAddr: ln.Addr().String(), last: map[string]string{},
		})
		if hooks != nil && hooks.Ready != nil {
			hooks.Ready(i, st)
		}
	}
	return w
}

func (w *vhWorld) close() {
	for _, n := range w.nodes {
		n.sl.Close()
	}
}

func vhDumpView(n *vhNode, id string) vhView {
	n.state.mu.Lock()
	defer n.state.mu.Unlock()
	st, ok := n.state.nodes[id]
	v := vhView{N: n.idx, ID: vhHex(id), Present: ok, Entries: []vhEntry{}}
	if !ok {
		return v
	}
	v.Addr = vhHex(st.Addr)
	v.Ver = st.Version
	v.Left = st.Left
	v.Unreach = st.Unreachable
	if !st.Expiry.IsZero() {
		v.Expiry = st.Expiry.UnixNano()
	}
	for mk, e := range st.Entries {
		_ = mk
		v.Entries = append(v.Entries, vhEntry{K: vhHex(e.Key), V: vhHex(e.Value), Ver: e.Version, Int: e.Internal, Del: e.Deleted})
	}
	sort.Slice(v.Entries, func(i, j int) bool {
		if v.Entries[i].Ver != v.Entries[j].Ver {
			return v.Entries[i].Ver < v.Entries[j].Ver
		}
		return v.Entries[i].K < v.Entries[j].K
	})
	// A map key that differs from the entry's own key would be invisible above; expose it.
	for mk, e := range st.Entries {
		if mk != e.Key {
			v.Entries = append(v.Entries, vhEntry{K: vhHex("MAPKEY-MISMATCH:" + mk), V: vhHex(e.Key)})
		}
	}
	return v
}

// observe dumps the summary of the acting nodes and every view whose content changed.
func (w *vhWorld) observe(obs *vhObs, acting ...int) {
	seen := map[int]bool{}
	for _, idx := range acting {
		if seen[idx] {
			continue
		}
		seen[idx] = true
		n := w.nodes[idx]
		n.state.mu.Lock()
		var ids []string
		for id := range n.state.nodes {
			ids = append(ids, id)
		}
		n.state.mu.Unlock()
		sort.Strings(ids)
		sum := vhSummary{N: idx, Nodes: []string{}}
		present := map[string]bool{}
		for _, id := range ids {
			present[id] = true
			v := vhDumpView(n, id)
			sum.Nodes = append(sum.Nodes, fmt.Sprintf("%s|%d|%d|%t|%t|%t", vhHex(id), v.Ver, len(v.Entries), v.Left, v.Unreach, v.Expiry != 0))
			b, _ := json.Marshal(v)
			if n.last[id] != string(b) {
				n.last[id] = string(b)
				obs.Views = append(obs.Views, v)
			}
		}
		for id := range n.last {
			if !present[id] {
				delete(n.last, id)
				obs.Views = append(obs.Views, vhView{N: idx, ID: vhHex(id), Present: false, Entries: []vhEntry{}})
			}
		}
		obs.Summary = append(obs.Summary, sum)
	}
	sort.Slice(obs.Views, func(i, j int) bool {
		if obs.Views[i].N != obs.Views[j].N {
			return obs.Views[i].N < obs.Views[j].N
		}
		return obs.Views[i].ID < obs.Views[j].ID
	})
}

func (w *vhWorld) nodeByAddr(addr string) *vhNode {
	for _, n := range w.nodes {
		if n.addr == addr {
			return n
		}
	}
	return nil
}

// stamps collects "now" oracles: for every view whose expiry was (re)stamped by this op.
func (w *vhWorld) stamps(before map[string]int64, acting ...int) map[string]int64 {
	out := map[string]int64{}
	for _, idx := range acting {
		n := w.nodes[idx]
		n.state.mu.Lock()
		for id, st := range n.state.nodes {
			key := fmt.Sprintf("%d/%s", idx, vhHex(id))
			var e int64
			if !st.Expiry.IsZero() {
				e = st.Expiry.UnixNano()
			}
			if e != 0 && before[key] != e {
				out[key] = e - int64(nodeExpiry)
			}
		}
		n.state.mu.Unlock()
	}
	return out
}

func (w *vhWorld) expiries(acting ...int) map[string]int64 {
	out := map[string]int64{}
	for _, idx := range acting {
		n := w.nodes[idx]
		n.state.mu.Lock()
		for id, st := range n.state.nodes {
			if !st.Expiry.IsZero() {
				out[fmt.Sprintf("%d/%s", idx, vhHex(id))] = st.Expiry.UnixNano()
			}
		}
		n.state.mu.Unlock()
	}
	return out
}

func (w *vhWorld) step(op vhOp) (obs vhObs) {
	obs = vhObs{Views: []vhView{}, Summary: []vhSummary{}, Events: []vhEvent{}, Sent: []vhPacket{}, Nows: map[string]int64{}}
	w.events = nil
	w.sent = nil
	var acting []int
	nn := len(w.nodes)
	switch op.Op {
	case "upsert", "delete", "compact", "leave", "liveness", "expire":
		acting = []int{op.N % nn}
	case "send":
		acting = []int{op.A % nn}
	case "join", "leavestream":
		acting = []int{op.A % nn, op.B % nn}
	case "deliver", "dup":
		if len(w.inflight) > 0 {
			p := w.inflight[op.I%len(w.inflight)]
			if dst := w.nodeByAddr(p.Dst); dst != nil {
				acting = []int{dst.idx}
			}
		}
	case "inject":
		acting = []int{op.N % nn}
	default:
		acting = []int{op.N % nn}
	}
	before := w.expiries(acting...)

	switch op.Op {
	case "upsert":
		w.nodes[op.N%nn].state.UpsertLocal(vhUnhex(op.K), vhUnhex(op.V))
	case "delete":
		w.nodes[op.N%nn].state.DeleteLocal(vhUnhex(op.K))
	case "compact":
		w.nodes[op.N%nn].state.CompactLocal(op.Th)
	case "leave":
		w.nodes[op.N%nn].state.LeaveLocal()
	case "send":
		a, b := w.nodes[op.A%nn], w.nodes[op.B%nn]
		a.g.config.MaxPacketSize = op.Max
		if err := a.g.gossip(NodeMetadata{ID: b.id, Addr: b.addr}); err != nil {
			obs.Err = "err"
		}
	case "deliver", "dup", "drop":
		if len(w.inflight) == 0 {
			obs.Skipped = true
			break
		}
		i := op.I % len(w.inflight)
		obs.Idx = i
		p := w.inflight[i]
		if op.Op != "dup" {
			w.inflight = append(append([]vhPacket{}, w.inflight[:i]...), w.inflight[i+1:]...)
		}
		if op.Op == "drop" {
			break
		}
		dst := w.nodeByAddr(p.Dst)
		if dst == nil {
			obs.Skipped = true
			break
		}
		dst.pl.maxPacketSize = op.Max
		b, _ := hex.DecodeString(p.Bytes)
		dst.fd.reports = nil
		if err := dst.pl.handlePacket(b); err != nil {
			obs.Err = "err"
		}
		obs.Extra = map[string]any{"reports": vhHexAll(dst.fd.reports)}
	case "inject":
		dst := w.nodes[op.N%nn]
		dst.pl.maxPacketSize = op.Max
		b, _ := hex.DecodeString(op.Bytes)
		dst.fd.reports = nil
		if err := dst.pl.handlePacket(b); err != nil {
			obs.Err = "err"
		}
		ex := map[string]any{"reports": vhHexAll(dst.fd.reports), "dec": ""}
		if len(b) >= 2 && b[1] == supportedVersion {
			switch messageType(b[0]) {
			case messageTypeDigest:
				if h, d, err := decodeDigest(b); err == nil {
					ex["dec"] = "digest"
					ex["digest"] = vhFromDigest(d)
					ex["hid"], ex["haddr"], ex["req"] = vhHex(h.NodeID), vhHex(h.Addr), h.Request
				}
			case messageTypeDelta:
				if h, d, err := decodeDelta(b); err == nil {
					ex["dec"] = "delta"
					ex["delta"] = vhFromDelta(d)
					ex["hid"], ex["haddr"] = vhHex(h.NodeID), vhHex(h.Addr)
				}
			}
		}
		obs.Extra = ex
	case "tick":
		// real-detector mode: the virtual clock of every node advances by D milliseconds
		for _, n := range w.nodes {
			n.fd.mu.Lock()
			n.fd.clock = n.fd.clock.Add(time.Duration(op.D) * time.Millisecond)
			n.fd.mu.Unlock()
		}
	case "hear":
		// real-detector mode: node N's detector is told it heard from Ref (what the delta handler does)
		w.nodes[op.N%nn].fd.Report(vhUnhex(op.Ref))
	case "liveness":
		n := w.nodes[op.N%nn]
		lv := map[string]float64{}
		for k, v := range op.Levels {
			lv[vhUnhex(k)] = v
		}
		n.fd.mu.Lock()
		n.fd.levels = lv
		n.fd.mu.Unlock()
		n.state.UpdateLiveness(float64(suspicionThreshold))
	case "expire":
		n := w.nodes[op.N%nn]
		t := time.Now()
		n.state.mu.Lock()
		if st, ok := n.state.nodes[vhUnhex(op.Ref)]; ok && !st.Expiry.IsZero() {
			t = st.Expiry
		}
		n.state.mu.Unlock()
		t = t.Add(time.Duration(op.D))
		obs.T = t.UnixNano()
		n.fd.removed = nil
		n.state.RemoveExpiredAt(t)
		rm := append([]string{}, n.fd.removed...)
		sort.Strings(rm)
		obs.Extra = map[string]any{"fd_removed": vhHexAll(rm)}
	case "race_expire":
		// concurrency probe (monitor only, not replayed on the model): on node N, one goroutine keeps re-learning
		// node Ref from a peer's digest while another keeps suspecting and expiring it; a third one applies deltas.
		// Whatever the interleaving, the notifications - in the order they are delivered - must fold to the final state.
		n := w.nodes[op.N%nn]
		ref := vhUnhex(op.Ref)
		iters := op.I
		if iters <= 0 {
			iters = 2000
		}
		if op.E != "" {
			// slow subscriber: callbacks of kind E take D ns
			vhSlowKind.Store(op.E)
			vhSlowNs.Store(op.D)
			defer vhSlowNs.Store(0)
		}
		var wg sync.WaitGroup
		wg.Add(3)
		// slow-subscriber mode: the re-learning goroutines keep going until the suspecting / expiring one is through (its
		// callbacks are the slow ones), so that every expiry has a re-discovery racing with it
		slow := op.E != ""
		stop := make(chan struct{})
		running := func(i int) bool {
			if !slow {
				return i < iters
			}
			select {
			case <-stop:
				return false
			default:
				return true
			}
		}
		go func() {
			defer wg.Done()
			for i := 0; running(i); i++ {
				n.state.ApplyDigest(digest{{ID: ref, Addr: "10.9.9.9:7000", Version: 0}})
				if slow {
					time.Sleep(20 * time.Microsecond)
				}
			}
		}()
		go func() {
			defer wg.Done()
			defer close(stop)
			for i := 0; i < iters; i++ {
				if slow {
					// wait (briefly) for the node to be known again, so that every iteration has something to expire
					for w0 := time.Now(); time.Since(w0) < 2*time.Millisecond; {
						if _, ok := n.state.Node(ref); ok {
							break
						}
						time.Sleep(10 * time.Microsecond)
					}
				}
				n.fd.mu.Lock()
				n.fd.levels = map[string]float64{ref: 1e9}
				n.fd.mu.Unlock()
				n.state.UpdateLiveness(float64(suspicionThreshold))
				n.state.RemoveExpiredAt(time.Now().Add(2 * nodeExpiry))
			}
		}()
		go func() {
			defer wg.Done()
			for i := 0; running(i); i++ {
				n.state.ApplyDelta(delta{{ID: ref, Addr: "10.9.9.9:7000", Entries: []Entry{{Key: "k", Value: "v", Version: uint64(i%3 + 1)}}}})
				if slow {
					time.Sleep(50 * time.Microsecond)
				}
			}
		}()
		wg.Wait()
		n.fd.mu.Lock()
		n.fd.levels = map[string]float64{}
		n.fd.mu.Unlock()
	case "race_compact":
		// concurrency probe (monitor only): node N writes I fresh keys w-<i> on one goroutine while another keeps
		// deleting a scratch key and compacting; afterwards every w-<i> must be live with its value
		n := w.nodes[op.N%nn]
		iters := op.I
		if iters <= 0 {
			iters = 2000
		}
		var wg sync.WaitGroup
		wg.Add(2)
		stop := make(chan struct{})
		go func() {
			defer wg.Done()
			defer close(stop)
			for i := 0; i < iters; i++ {
				n.state.UpsertLocal(fmt.Sprintf("w-%d", i), fmt.Sprintf("v%d", i))
			}
		}()
		go func() {
			defer wg.Done()
			for j := 0; ; j++ {
				select {
				case <-stop:
					return
				default:
				}
				n.state.UpsertLocal("scratch", fmt.Sprintf("s%d", j))
				n.state.DeleteLocal("scratch")
				n.state.CompactLocal(1)
			}
		}()
		wg.Wait()
	case "round":
		// the real peer selection: node N runs I gossip rounds (Gossip.gossipRound); the destinations of every round are
		// recorded, the packets of the last round stay in flight
		n := w.nodes[op.N%nn]
		iters := op.I
		if iters <= 0 {
			iters = 1
		}
		n.g.config.MaxPacketSize = 1400
		rounds := [][]string{}
		errs := 0
		for i := 0; i < iters; i++ {
			w.sent = nil
			if err := n.g.gossipRound(); err != nil {
				errs++
			}
			dsts := []string{}
			for _, p := range w.sent {
				dsts = append(dsts, vhHex(p.Dst))
			}
			rounds = append(rounds, dsts)
		}
		obs.Extra = map[string]any{"rounds": rounds, "errs": errs}
	case "serve_burst":
		// the real receive loop: every packet in flight to node N (at most I of them when I > 0) is handed back to back
		// to a real packetListener.Serve reading from a queue; the op ends when the loop asks for the packet after the
		// last one (plus a grace period in which anything still running in the background may finish)
		n := w.nodes[op.N%nn]
		var idxs []int
		var burst []vhPacket
		var rest []vhPacket
		for i, p := range w.inflight {
			if p.Dst == n.addr && (op.I <= 0 || len(burst) < op.I) {
				idxs = append(idxs, i)
				burst = append(burst, p)
			} else {
				rest = append(rest, p)
			}
		}
		w.inflight = rest
		// E == "fit": the node's maximum packet size is the size of the largest datagram of the burst - a datagram that fills the
		// read buffer exactly is a legitimate one (senders stop only when the NEXT entry would exceed the limit)
		maxSize := 1400
		if op.E == "fit" {
			maxSize = 0
			for _, p := range burst {
				if l := len(p.Bytes) / 2; l > maxSize {
					maxSize = l
				}
			}
			if maxSize < 64 {
				maxSize = 1400
			}
		}
		qc := &vhQueueConn{in: make(chan []byte), idle: make(chan struct{}, len(burst)+2)}
		pl := newPacketListener(qc, n.state, n.fd, maxSize, newMetrics(), log.NewNopLogger())
		pl.maxPacketSize = 1400 // only the READ buffer is sized to fit; replies are cut as usual (a small limit would make the
		// randomly ordered digest replies differ from run to run)
		done := make(chan struct{})
		go func() { pl.Serve(); close(done) }()
		for _, p := range burst {
			b, _ := hex.DecodeString(p.Bytes)
			qc.in <- b
		}
		// wait until the loop is back in ReadFrom after the last packet
		for got := 0; got < len(burst)+1; got++ {
			<-qc.idle
		}
		time.Sleep(30 * time.Millisecond)
		close(qc.in)
		<-done
		time.Sleep(10 * time.Millisecond)
		qc.mu.Lock()
		w.sent = append(w.sent, qc.sent...)
		qc.mu.Unlock()
		obs.Extra = map[string]any{"burst": idxs, "max": maxSize}
	case "join":
		a, b := w.nodes[op.A%nn], w.nodes[op.B%nn]
		id, err := a.g.join(b.slAddr)
		if err != nil {
			obs.Err = "err"
		}
		obs.Extra = map[string]any{"joined": vhHex(id)}
	case "leavestream":
		a, b := w.nodes[op.A%nn], w.nodes[op.B%nn]
		if err := a.g.leave(b.slAddr); err != nil {
			obs.Err = "err"
		}
	default:
		if w.hooks == nil || w.hooks.ExtraOp == nil || !w.hooks.ExtraOp(op, op.N%nn) {
			panic("unknown op " + op.Op)
		}
	}

	for _, idx := range acting {
		fd := w.nodes[idx].fd
		if fd.real == nil {
			continue
		}
		fd.mu.Lock()
		if obs.Extra == nil {
			obs.Extra = map[string]any{}
		}
		obs.Extra["fdcalls"] = append([]string{}, fd.calls...)
		obs.Extra["levels"] = fd.asked
		obs.Extra["clock"] = fd.clock.UnixNano()
		fd.calls, fd.asked = nil, nil
		fd.mu.Unlock()
	}
	obs.Nows = w.stamps(before, acting...)
	obs.Events = append(obs.Events, w.events...)
	obs.Sent = append(obs.Sent, w.sent...)
	obs.Order = []string{}
	for _, p := range w.sent {
		b, _ := hex.DecodeString(p.Bytes)
		if len(b) > 0 && messageType(b[0]) == messageTypeDigest {
			if _, d, err := decodeDigest(b); err == nil {
				for _, e := range d {
					obs.Order = append(obs.Order, vhHex(e.ID))
				}
			}
		}
	}
	if op.Op != "inject" {
		// replies to injected (outside) packets are observed but not fed back into the network
		w.inflight = append(w.inflight, w.sent...)
	}
	w.observe(&obs, acting...)
	if w.hooks != nil && w.hooks.Extra != nil {
		hx := map[string]any{}
		for _, idx := range acting {
			hx[fmt.Sprint(idx)] = w.hooks.Extra(idx)
		}
		if obs.Extra == nil {
			obs.Extra = map[string]any{}
		}
		obs.Extra["hook"] = hx
	}
	return obs
}

func vhHexAll(l []string) []string {
	out := []string{}
	for _, s := range l {
		out = append(out, vhHex(s))
	}
	return out
}

func vhRunCase(c vhCase) (out vhCaseOut) { return vhRunCaseH(c, nil) }

func vhRunCaseH(c vhCase, hooks *VhHooks) (out vhCaseOut) {
	out.ID = c.ID
	w := vhNewWorldFD(c.Nodes, hooks, c.RealFD)
	defer w.close()
	defer func() {
		if r := recover(); r != nil {
			out.Panic = fmt.Sprint(r)
		}
	}()
	for _, op := range c.Ops {
		done := make(chan vhObs, 1)
		pch := make(chan any, 1)
		go func() {
			defer func() {
				if r := recover(); r != nil {
					pch <- r
				}
			}()
			done <- w.step(op)
		}()
		select {
		case o := <-done:
			out.Obs = append(out.Obs, o)
		case r := <-pch:
			out.Panic = fmt.Sprintf("panic in op %s: %v", op.Op, r)
			return out
		case <-time.After(20 * time.Second):
			out.Panic = "timeout in op " + op.Op
			return out
		}
	}
	return out
}


type vhDigEntry struct {
	ID   string `json:"id"`
	Addr string `json:"addr"`
	Ver  uint64 `json:"ver"`
	Left bool   `json:"left"`
}
type vhDeltaEntry struct {
	ID      string    `json:"id"`
	Addr    string    `json:"addr"`
	Entries []vhEntry `json:"entries"`
}

func vhToDigest(in []vhDigEntry) digest {
	var d digest
	for _, e := range in {
		d = append(d, digestEntry{ID: vhUnhex(e.ID), Addr: vhUnhex(e.Addr), Version: e.Ver, Left: e.Left})
	}
	return d
}
func vhFromDigest(d digest) []vhDigEntry {
	out := []vhDigEntry{}
	for _, e := range d {
		out = append(out, vhDigEntry{ID: vhHex(e.ID), Addr: vhHex(e.Addr), Ver: e.Version, Left: e.Left})
	}
	return out
}
func vhToDelta(in []vhDeltaEntry) delta {
	var d delta
	for _, de := range in {
		x := deltaEntry{ID: vhUnhex(de.ID), Addr: vhUnhex(de.Addr)}
		for _, e := range de.Entries {
			x.Entries = append(x.Entries, Entry{Key: vhUnhex(e.K), Value: vhUnhex(e.V), Version: e.Ver, Internal: e.Int, Deleted: e.Del})
		}
		d = append(d, x)
	}
	return d
}
func vhFromDelta(d delta) []vhDeltaEntry {
	out := []vhDeltaEntry{}
	for _, de := range d {
		x := vhDeltaEntry{ID: vhHex(de.ID), Addr: vhHex(de.Addr), Entries: []vhEntry{}}
		for _, e := range de.Entries {
			x.Entries = append(x.Entries, vhEntry{K: vhHex(e.Key), V: vhHex(e.Value), Ver: e.Version, Int: e.Internal, Del: e.Deleted})
		}
		out = append(out, x)
	}
	return out
}

