//go:build verif

package gossip

// Translator half of the tie for the protocol constants: prints the values the COMPILER computed for the constants of the
// current source (pkg/gossip). props/consts_common.py writes them to coq/generated/Constants.v, on which the theorems of
// GossipP/ConstantsP.v are re-checked at every run.

import (
	"encoding/json"
	"os"
	"testing"
)

func TestVerifHarness_Consts(t *testing.T) {
	out := os.Getenv("VERIF_OUT")
	if os.Getenv("VERIF_IN") == "" || out == "" {
		t.Skip("VERIF_IN not set")
	}
	m := map[string]any{
		"suspicionThreshold": int64(suspicionThreshold),
		"compactThreshold":   int64(compactThreshold),
		"nodeExpiryNs":       int64(nodeExpiry),
		"streamTimeoutNs":    int64(streamTimeout),
		"leftKey":            leftKey,
		"compactKey":         compactKey,
		"messageTypeDigest":  int64(messageTypeDigest),
		"messageTypeDelta":   int64(messageTypeDelta),
		"messageTypeJoin":    int64(messageTypeJoin),
		"messageTypeLeave":   int64(messageTypeLeave),
		"supportedVersion":   int64(supportedVersion),
	}
	b, _ := json.Marshal(m)
	if err := os.WriteFile(out, b, 0o644); err != nil {
		t.Fatal(err)
	}
}
