//go:build verif

// Test entry points of the pkg/gossip verification harness: world, codec, hostile and failure-detector modes.
package gossip

import (
	"bytes"
	"encoding/hex"
	"encoding/json"
	"fmt"
	"math"
	"net"
	"os"
	"sync"
	"testing"
	"time"
)

type vhInput struct {
	Mode  string            `json:"mode"`
	Cases []vhCase          `json:"cases"`
	Codec []vhCodecCase     `json:"codec"`
	FD    []vhFDCase        `json:"fd"`
	Raw   []json.RawMessage `json:"raw"`
}


// ---------------- codec mode ----------------
type vhCodecCase struct {
	ID      string         `json:"id"`
	Kind    string         `json:"kind"` // digest | delta
	HID     string         `json:"hid"`
	HAddr   string         `json:"haddr"`
	Request bool           `json:"request"`
	Digest  []vhDigEntry   `json:"digest"`
	Delta   []vhDeltaEntry `json:"delta"`
	Maxes   []int          `json:"maxes"` // empty => every size from 0 to full length + 2
}
type vhCodecRes struct {
	Max   int    `json:"max"`
	Err   bool   `json:"err"`
	Bytes string `json:"bytes"`
	// what the real decoder makes of the emitted bytes
	DecErr    bool           `json:"dec_err"`
	DecDigest []vhDigEntry   `json:"dec_digest"`
	DecDelta  []vhDeltaEntry `json:"dec_delta"`
	DecHID    string         `json:"dec_hid"`
	DecHAddr  string         `json:"dec_haddr"`
	DecReq    bool           `json:"dec_req"`
}
type vhCodecOut struct {
	ID   string       `json:"id"`
	Full int          `json:"full"`
	Res  []vhCodecRes `json:"res"`
}

func vhRunCodec(c vhCodecCase) vhCodecOut {
	out := vhCodecOut{ID: c.ID}
	enc := func(max int) ([]byte, error) {
		if c.Kind == "digest" {
			return encodeDigest(digestHeader{NodeID: vhUnhex(c.HID), Addr: vhUnhex(c.HAddr), Request: c.Request}, vhToDigest(c.Digest), max)
		}
		return encodeDelta(deltaHeader{NodeID: vhUnhex(c.HID), Addr: vhUnhex(c.HAddr)}, vhToDelta(c.Delta), max)
	}
	full, err := enc(math.MaxInt32)
	if err != nil {
		panic(err)
	}
	out.Full = len(full)
	maxes := c.Maxes
	if len(maxes) == 0 {
		for m := 0; m <= len(full)+2; m++ {
			maxes = append(maxes, m)
		}
	}
	for _, m := range maxes {
		r := vhCodecRes{Max: m}
		b, err := enc(m)
		if err != nil {
			r.Err = true
		} else {
			r.Bytes = hex.EncodeToString(b)
			if c.Kind == "digest" {
				h, d, err := decodeDigest(b)
				if err != nil {
					r.DecErr = true
				} else {
					r.DecDigest = vhFromDigest(d)
					r.DecHID, r.DecHAddr, r.DecReq = vhHex(h.NodeID), vhHex(h.Addr), h.Request
				}
			} else {
				h, d, err := decodeDelta(b)
				if err != nil {
					r.DecErr = true
				} else {
					r.DecDelta = vhFromDelta(d)
					r.DecHID, r.DecHAddr = vhHex(h.NodeID), vhHex(h.Addr)
				}
			}
		}
		out.Res = append(out.Res, r)
	}
	return out
}

// ---------------- hostile mode ----------------
// Each raw item: {"id":..., "bytes": hex, "stream": bool}. The receiver has a fixed non-trivial own
// state; we check no panic, no hang, own state unchanged; when the packet decodes, the decoded content
// is reported so that the model can replay it.
type vhHostile struct {
	ID     string `json:"id"`
	Bytes  string `json:"bytes"`
	Stream bool   `json:"stream"`
	// NoRead (streams): the peer sends a VALID join request (built with the real encoder) followed by Bytes and then
	// never reads the reply: the handler must give up at its stream timeout, not block in its write for ever
	NoRead bool `json:"noread"`
	// JoinCut > 0 (streams): a VALID join request (header, a delta introducing node "ghost" with two entries, a digest) built
	// with the real encoder, of which only the first JoinCut bytes are sent before the peer closes
	JoinCut int `json:"joincut"`
	// Hold (streams): the peer sends Bytes and then neither sends nor closes for 20 s: the handler has to give up at its stream
	// timeout (3 s here), however little it has received
	Hold bool `json:"hold"`
}
type vhHostileOut struct {
	Known   int  `json:"known"`    // remote nodes the receiver knows afterwards
	JoinLen int  `json:"join_len"` // length of the complete join request (JoinCut cases)
	Replied bool `json:"replied"`  // the handler wrote a reply
	ID        string         `json:"id"`
	Panic     string         `json:"panic"`
	Timeout   bool           `json:"timeout"`
	Err       bool           `json:"err"`
	OwnSame   bool           `json:"own_same"`
	Kind      string         `json:"kind"`
	DecDigest []vhDigEntry   `json:"dec_digest"`
	DecDelta  []vhDeltaEntry `json:"dec_delta"`
	DecHAddr  string         `json:"dec_haddr"`
	DecReq    bool           `json:"dec_req"`
	Obs       vhObs          `json:"obs"`
}

func vhRunHostile(hc vhHostile) (out vhHostileOut) {
	out.ID = hc.ID
	w := vhNewWorld([]vhNodeSpec{{ID: vhHex("me"), Addr: vhHex("10.0.0.1:7000")}})
	defer w.close()
	me := w.nodes[0]
	me.state.UpsertLocal("proxy_addr", "10.0.0.1:8000")
	me.state.UpsertLocal("endpoint:e", "2")
	me.state.UpsertLocal("x", "y")
	me.state.DeleteLocal("x")
	ownBefore, _ := json.Marshal(vhDumpView(me, "me"))
	b, _ := hex.DecodeString(hc.Bytes)
	w.events, w.sent = nil, nil
	type res struct {
		err error
		p   any
	}
	ch := make(chan res, 1)
	go func() {
		defer func() {
			if r := recover(); r != nil {
				ch <- res{p: r}
			}
		}()
		if hc.Stream {
			c1, c2 := net.Pipe()
			if hc.NoRead {
				var req bytes.Buffer
				req.WriteByte(byte(messageTypeJoin))
				req.WriteByte(supportedVersion)
				enc := newEncoder(&req)
				_ = enc.Encode(&joinHeader{NodeID: "peer", Addr: "10.0.0.9:7000"})
				_ = enc.Encode(delta{})
				_ = enc.Encode(digest{})
				req.Write(b)
				go func() {
					_, _ = c1.Write(req.Bytes())
					time.Sleep(20 * time.Second) // never reads; closed long after the handler must have given up
					c1.Close()
				}()
				me.sl.streamTimeout = 2 * time.Second
				ch <- res{err: me.sl.handleConn(c2)}
				return
			}
			if hc.JoinCut > 0 {
				var req bytes.Buffer
				req.WriteByte(byte(messageTypeJoin))
				req.WriteByte(supportedVersion)
				enc := newEncoder(&req)
				_ = enc.Encode(&joinHeader{NodeID: "ghost", Addr: "10.0.0.9:7000"})
				_ = enc.Encode(delta{{ID: "ghost", Addr: "10.0.0.9:7000", Entries: []Entry{
					{Key: "proxy_addr", Value: "10.0.0.9:8000", Version: 1}, {Key: "endpoint:g", Value: "1", Version: 2}}}})
				_ = enc.Encode(digest{{ID: "ghost", Addr: "10.0.0.9:7000", Version: 2}, {ID: "third", Addr: "10.0.0.8:7000", Version: 7}})
				out.JoinLen = req.Len()
				b = req.Bytes()
				if hc.JoinCut < len(b) {
					b = b[:hc.JoinCut]
				}
			}
			if hc.Hold {
				go func() {
					_, _ = c1.Write(b)
					time.Sleep(20 * time.Second)
					c1.Close()
				}()
				me.sl.streamTimeout = 3 * time.Second
				t0 := time.Now()
				err := me.sl.handleConn(c2)
				if time.Since(t0) > 8*time.Second {
					out.Timeout = true
				}
				ch <- res{err: err}
				return
			}
			go func() {
				_ = c1.SetDeadline(time.Now().Add(2 * time.Second))
				_, _ = c1.Write(b)
				if hc.JoinCut > 0 && hc.JoinCut < out.JoinLen {
					// the peer goes away in the middle of its request
					c1.Close()
					return
				}
				buf := make([]byte, 65536)
				for {
					n, err := c1.Read(buf)
					if n > 0 {
						out.Replied = true
					}
					if err != nil {
						break
					}
				}
				c1.Close()
			}()
			me.sl.streamTimeout = 3 * time.Second
			ch <- res{err: me.sl.handleConn(c2)}
			return
		}
		ch <- res{err: me.pl.handlePacket(b)}
	}()
	select {
	case r := <-ch:
		if r.p != nil {
			out.Panic = fmt.Sprint(r.p)
		}
		out.Err = r.err != nil
	case <-time.After(15 * time.Second):
		out.Timeout = true
		return out
	}
	ownAfter, _ := json.Marshal(vhDumpView(me, "me"))
	out.OwnSame = string(ownBefore) == string(ownAfter)
	me.state.mu.Lock()
	out.Known = len(me.state.nodes) - 1
	me.state.mu.Unlock()
	if !hc.Stream && len(b) >= 2 {
		func() {
			defer func() { _ = recover() }()
			switch messageType(b[0]) {
			case messageTypeDigest:
				if h, d, err := decodeDigest(b); err == nil {
					out.Kind = "digest"
					out.DecDigest = vhFromDigest(d)
					out.DecHAddr, out.DecReq = vhHex(h.Addr), h.Request
				}
			case messageTypeDelta:
				if _, d, err := decodeDelta(b); err == nil {
					out.Kind = "delta"
					out.DecDelta = vhFromDelta(d)
				}
			}
		}()
	}
	out.Obs = vhObs{Views: []vhView{}, Summary: []vhSummary{}, Events: append([]vhEvent{}, w.events...), Sent: append([]vhPacket{}, w.sent...), Nows: w.stamps(map[string]int64{}, 0)}
	me.last = map[string]string{}
	w.observe(&out.Obs, 0)
	return out
}

// ---------------- failure detector mode ----------------
type vhFDCase struct {
	ID        string  `json:"id"`
	Window    int     `json:"window"`
	Bootstrap int64   `json:"bootstrap"`
	Arrivals  []int64 `json:"arrivals"` // unix nanos, strictly increasing
	Queries   []int64 `json:"queries"`  // asked after all arrivals
	Each      bool    `json:"each"`     // also query right after every arrival at (arrival + each_d)
	EachD     int64   `json:"each_d"`
}
type vhFDOut struct {
	ID      string    `json:"id"`
	Phis    []float64 `json:"phis"`
	EachPhi []float64 `json:"each_phi"`
	Sum     int64     `json:"sum"`
	Size    int       `json:"size"`
	Panic   string    `json:"panic"`
}

func vhRunFD(c vhFDCase) (out vhFDOut) {
	out.ID = c.ID
	defer func() {
		if r := recover(); r != nil {
			out.Panic = fmt.Sprint(r)
		}
	}()
	d := newAccrualFailureDetector(time.Duration(c.Bootstrap), c.Window)
	for _, a := range c.Arrivals {
		d.ReportWithTimestamp("p", time.Unix(0, a))
		if c.Each {
			out.EachPhi = append(out.EachPhi, d.SuspicionLevelAt("p", time.Unix(0, a+c.EachD)))
		}
	}
	for _, q := range c.Queries {
		out.Phis = append(out.Phis, d.SuspicionLevelAt("p", time.Unix(0, q)))
	}
	if w, ok := d.windows["p"]; ok {
		out.Sum = w.intervals.sum
		out.Size = w.intervals.size()
	}
	return out
}

func TestVerifHarness(t *testing.T) {
	inPath, outPath := os.Getenv("VERIF_IN"), os.Getenv("VERIF_OUT")
	if inPath == "" {
		t.Skip("VERIF_IN not set")
	}
	raw, err := os.ReadFile(inPath)
	if err != nil {
		t.Fatal(err)
	}
	var in vhInput
	if err := json.Unmarshal(raw, &in); err != nil {
		t.Fatal(err)
	}
	out := map[string]any{}
	switch in.Mode {
	case "world":
		res := make([]vhCaseOut, len(in.Cases))
		var wg sync.WaitGroup
		sem := make(chan struct{}, 8)
		for i := range in.Cases {
			wg.Add(1)
			sem <- struct{}{}
			go func(i int) {
				defer wg.Done()
				defer func() { <-sem }()
				res[i] = vhRunCase(in.Cases[i])
			}(i)
		}
		wg.Wait()
		out["cases"] = res
	case "codec":
		var res []vhCodecOut
		for _, c := range in.Codec {
			res = append(res, vhRunCodec(c))
		}
		out["codec"] = res
	case "hostile":
		res := make([]vhHostileOut, len(in.Raw))
		var wg sync.WaitGroup
		sem := make(chan struct{}, 8)
		for i := range in.Raw {
			var hc vhHostile
			if err := json.Unmarshal(in.Raw[i], &hc); err != nil {
				t.Fatal(err)
			}
			wg.Add(1)
			sem <- struct{}{}
			go func(i int, hc vhHostile) {
				defer wg.Done()
				defer func() { <-sem }()
				res[i] = vhRunHostile(hc)
			}(i, hc)
		}
		wg.Wait()
		out["hostile"] = res
	case "fd":
		var res []vhFDOut
		for _, c := range in.FD {
			res = append(res, vhRunFD(c))
		}
		out["fd"] = res
	default:
		t.Fatalf("unknown mode %q", in.Mode)
	}
	b, err := json.Marshal(out)
	if err != nil {
		t.Fatal(err)
	}
	if err := os.WriteFile(outPath, b, 0o644); err != nil {
		t.Fatal(err)
	}
}
