//go:build verif

package gossip

// Verification harness: bulk synchronisation over the datagram path. An owner with K entries (mixed sizes, optional
// deletions and a compaction) is pulled by an observer through the REAL Gossip.gossip / packetListener.handlePacket /
// clusterState.Digest/Delta/ApplyDelta / encodeDelta / decodeDelta, one complete loss-free exchange per round, until the
// observer reports the owner's version. Only summaries leave the process (K can be thousands): per round the version the
// observer reports, the first datagram above the size limit, the first round after which the observer reports version v
// while an owner entry at or below v is missing or different, and whether the final views are identical.

import (
	"encoding/hex"
	"encoding/json"
	"fmt"
	"os"
	"sort"
	"testing"
)

type vhBulkCase struct {
	ID       string `json:"id"`
	Keys     int    `json:"keys"`
	Max      int    `json:"max"`
	LongEach int    `json:"long_each"` // every LongEach-th key has a long name / value (0 = none)
	LongLen  int    `json:"long_len"`
	Deletes  int    `json:"deletes"`  // number of keys deleted after the writes
	Compact  bool   `json:"compact"`  // owner compacts after the deletions
	Prefetch int    `json:"prefetch"` // the observer has synchronised after this many of the writes (0 = starts empty)
	Rounds   int    `json:"rounds"`   // bound on the number of exchanges
}

type vhBulkOut struct {
	ID        string   `json:"id"`
	OwnerVer  uint64   `json:"owner_ver"`
	OwnerN    int      `json:"owner_entries"`
	Versions  []uint64 `json:"versions"` // observer's version of the owner after every round
	Datagrams int      `json:"datagrams"`
	Oversize  string   `json:"oversize"` // first datagram above the limit
	Hole      string   `json:"hole"`     // first V3 violation
	Equal     bool     `json:"equal"`
	Diff      string   `json:"diff"`
	OwnTouched string  `json:"own_touched"` // the observer's or owner's own state changed by a received packet
	Panic     string   `json:"panic"`
}

func vhBulkEntries(n *vhNode, id string) (map[string]Entry, uint64, bool) {
	n.state.mu.Lock()
	defer n.state.mu.Unlock()
	st, ok := n.state.nodes[id]
	if !ok {
		return nil, 0, false
	}
	m := map[string]Entry{}
	for k, e := range st.Entries {
		m[k] = e
	}
	return m, st.Version, true
}

// one complete exchange a <- b: a's digest to b, b's delta reply (and digest reply) back, everything that follows,
// until the network is quiet
func vhBulkExchange(w *vhWorld, a, b *vhNode, max int, out *vhBulkOut) {
	a.g.config.MaxPacketSize = max
	w.sent = nil
	if err := a.g.gossip(NodeMetadata{ID: b.id, Addr: b.addr}); err != nil {
		panic("gossip: " + err.Error())
	}
	queue := append([]vhPacket{}, w.sent...)
	for hops := 0; len(queue) > 0 && hops < 16; hops++ {
		var next []vhPacket
		for _, p := range queue {
			out.Datagrams++
			raw, _ := hex.DecodeString(p.Bytes)
			if len(raw) > max && out.Oversize == "" {
				out.Oversize = fmt.Sprintf("datagram of %d bytes to %s, limit %d", len(raw), p.Dst, max)
			}
			dst := w.nodeByAddr(p.Dst)
			if dst == nil {
				continue
			}
			dst.pl.maxPacketSize = max
			w.sent = nil
			_ = dst.pl.handlePacket(raw)
			next = append(next, w.sent...)
		}
		queue = next
	}
}

func vhBulkRun(c vhBulkCase) (out vhBulkOut) {
	out.ID = c.ID
	out.Versions = []uint64{}
	defer func() {
		if r := recover(); r != nil {
			out.Panic = fmt.Sprint(r)
		}
	}()
	w := vhNewWorldH([]vhNodeSpec{{ID: vhHex("obs"), Addr: vhHex("10.0.0.1:7000")}, {ID: vhHex("own"), Addr: vhHex("10.0.0.2:7000")}}, nil)
	defer w.close()
	obs, own := w.nodes[0], w.nodes[1]
	key := func(i int) string {
		if c.LongEach > 0 && i%c.LongEach == c.LongEach-1 {
			s := fmt.Sprintf("endpoint:long-%06d-", i)
			for len(s) < c.LongLen {
				s += "x"
			}
			return s
		}
		return fmt.Sprintf("endpoint:e%d", i)
	}
	obs.state.UpsertLocal("proxy_addr", "10.0.0.1:8000")
	for i := 0; i < c.Keys; i++ {
		own.state.UpsertLocal(key(i), fmt.Sprint(i%7+1))
		if c.Prefetch > 0 && i+1 == c.Prefetch {
			for r := 0; r < c.Rounds; r++ {
				vhBulkExchange(w, obs, own, 1400, &out)
				if _, v, ok := vhBulkEntries(obs, own.id); ok && v == own.state.LocalNode().Version {
					break
				}
			}
		}
	}
	for i := 0; i < c.Deletes && i < c.Keys; i++ {
		own.state.DeleteLocal(key((i * 3) % c.Keys))
	}
	if c.Compact {
		own.state.CompactLocal(1)
	}
	out.Datagrams = 0
	ownBefore, ownVer, _ := vhBulkEntries(own, own.id)
	obsOwnBefore, obsOwnVer, _ := vhBulkEntries(obs, obs.id)
	out.OwnerVer, out.OwnerN = ownVer, len(ownBefore)
	for r := 0; r < c.Rounds; r++ {
		vhBulkExchange(w, obs, own, c.Max, &out)
		view, v, ok := vhBulkEntries(obs, own.id)
		if !ok {
			out.Versions = append(out.Versions, 0)
			continue
		}
		out.Versions = append(out.Versions, v)
		if out.Hole == "" {
			keys := make([]string, 0, len(ownBefore))
			for k := range ownBefore {
				keys = append(keys, k)
			}
			sort.Strings(keys)
			for _, k := range keys {
				e := ownBefore[k]
				if e.Version > v {
					continue
				}
				g, has := view[k]
				if !has || g != e {
					out.Hole = fmt.Sprintf("after round %d the observer reports version %d of the owner, but the owner's entry %q (version %d, deleted=%v) is %s",
						r, v, k, e.Version, e.Deleted, map[bool]string{true: fmt.Sprintf("held as version %d deleted=%v value %q", g.Version, g.Deleted, g.Value), false: "missing"}[has])
					break
				}
			}
		}
		if v == ownVer {
			break
		}
	}
	view, v, _ := vhBulkEntries(obs, own.id)
	out.Equal = v == ownVer && len(view) == len(ownBefore)
	if out.Equal {
		for k, e := range ownBefore {
			if g, has := view[k]; !has || g != e {
				out.Equal = false
				out.Diff = fmt.Sprintf("entry %q: owner %+v, observer has=%v %+v", k, e, has, g)
				break
			}
		}
	} else {
		out.Diff = fmt.Sprintf("observer: version %d with %d entries; owner: version %d with %d entries", v, len(view), ownVer, len(ownBefore))
	}
	ownAfter, ownVer2, _ := vhBulkEntries(own, own.id)
	obsOwnAfter, obsOwnVer2, _ := vhBulkEntries(obs, obs.id)
	if ownVer2 != ownVer || len(ownAfter) != len(ownBefore) {
		out.OwnTouched = "the owner's own state changed while it was only answering digests"
	}
	if obsOwnVer2 != obsOwnVer || len(obsOwnAfter) != len(obsOwnBefore) {
		out.OwnTouched = "the observer's own state changed while it was only pulling"
	}
	return out
}

func TestVerifHarness_Bulk(t *testing.T) {
	in := os.Getenv("VERIF_IN")
	if in == "" {
		t.Skip("VERIF_IN not set")
	}
	raw, err := os.ReadFile(in)
	if err != nil {
		t.Fatal(err)
	}
	var cases []vhBulkCase
	if err := json.Unmarshal(raw, &cases); err != nil {
		t.Fatal(err)
	}
	outs := make([]vhBulkOut, 0, len(cases))
	for _, c := range cases {
		outs = append(outs, vhBulkRun(c))
	}
	b, _ := json.Marshal(outs)
	if err := os.WriteFile(os.Getenv("VERIF_OUT"), b, 0o644); err != nil {
		t.Fatal(err)
	}
}
