//go:build verif

package client

// Verification harness (C01 / C10: the endpoint named by the URL path is the endpoint routed to): for scripted endpoint
// ids, what the REAL client renders (Dialer.dialURL, Upstream.listenURL), and what the real net/http request parser and a
// gin engine carrying piko's route patterns make of that request target.

import (
	"bufio"
	"encoding/hex"
	"encoding/json"
	"net/http"
	"net/http/httptest"
	"net/url"
	"os"
	"strings"
	"testing"

	"github.com/gin-gonic/gin"
)

type vhurlOut struct {
	ID      string `json:"id"`      // hex
	TCP     bool   `json:"tcp"`     // dial (tcp route) or listen (upstream route)
	URL     string `json:"url"`     // hex: the URL the client renders
	Escaped string `json:"escaped"` // hex: its path as sent on the wire
	Routed  bool   `json:"routed"`  // a handler of the route ran
	Param   string `json:"param"`   // hex: the endpoint id the handler saw
	Status  int    `json:"status"`
	ParseErr string `json:"parse_err"`
}

func vhurlOne(id string, tcp bool) (out vhurlOut) {
	out.ID, out.TCP = hex.EncodeToString([]byte(id)), tcp
	base := &url.URL{Scheme: "http", Host: "piko.example:8000"}
	var rendered string
	if tcp {
		rendered = (&Dialer{URL: base}).dialURL(id)
	} else {
		rendered = (&Upstream{URL: base}).listenURL(id)
	}
	out.URL = hex.EncodeToString([]byte(rendered))
	// the request target the client's HTTP stack sends: everything after scheme://host (the fragment is never sent)
	rest := rendered
	if i := strings.Index(rest, "://"); i >= 0 {
		rest = rest[i+3:]
	}
	if i := strings.IndexByte(rest, '/'); i >= 0 {
		rest = rest[i:]
	} else {
		rest = "/"
	}
	if i := strings.IndexByte(rest, '#'); i >= 0 {
		rest = rest[:i]
	}
	path := rest
	if i := strings.IndexByte(path, '?'); i >= 0 {
		path = path[:i]
	}
	out.Escaped = hex.EncodeToString([]byte(path))
	req, err := http.ReadRequest(bufio.NewReader(strings.NewReader("GET " + rest + " HTTP/1.1\r\nHost: piko.example\r\n\r\n")))
	if err != nil {
		out.ParseErr = err.Error()
		return out
	}
	gin.SetMode(gin.ReleaseMode)
	engine := gin.New()
	h := func(c *gin.Context) {
		out.Routed = true
		out.Param = hex.EncodeToString([]byte(c.Param("endpointID")))
		c.Status(http.StatusOK)
	}
	engine.GET("/_piko/v1/tcp/:endpointID", h)
	engine.GET("/piko/v1/upstream/:endpointID", h)
	rec := httptest.NewRecorder()
	engine.ServeHTTP(rec, req)
	out.Status = rec.Code
	return out
}

func TestVerifHarness_UrlPath(t *testing.T) {
	in := os.Getenv("VERIF_IN")
	if in == "" {
		t.Skip("VERIF_IN not set")
	}
	raw, err := os.ReadFile(in)
	if err != nil {
		t.Fatal(err)
	}
	var ids []string // hex
	if err := json.Unmarshal(raw, &ids); err != nil {
		t.Fatal(err)
	}
	outs := []vhurlOut{}
	for _, h := range ids {
		b, err := hex.DecodeString(h)
		if err != nil {
			t.Fatal(err)
		}
		outs = append(outs, vhurlOne(string(b), true), vhurlOne(string(b), false))
	}
	b, _ := json.Marshal(outs)
	if err := os.WriteFile(os.Getenv("VERIF_OUT"), b, 0o644); err != nil {
		t.Fatal(err)
	}
}
