//go:build verif

// Verification harness for property C16 (upstream life cycle). Injected into server/upstream with
// `go test -overlay` (never copied into /repo). Every scenario runs a REAL upstream.Server (real
// LoadBalancedManager + cluster.State, optionally a real JWT verifier) on a loopback listener, real
// clients from /repo/client or raw gorilla+yamux clients, and records after every step (once the server
// is quiescent) the manager's balancers, the advertised local endpoint counts and the session table.
package upstream

import (
	"encoding/base64"
	"context"
	"encoding/json"
	"errors"
	"fmt"
	"net"
	"net/http"
	"net/url"
	"os"
	"reflect"
	"sort"
	"sync"
	"testing"
	"time"

	"github.com/andydunstall/yamux"
	"github.com/golang-jwt/jwt/v5"
	"github.com/gorilla/websocket"

	pikoclient "github.com/andydunstall/piko/client"
	"github.com/andydunstall/piko/pkg/auth"
	"github.com/andydunstall/piko/pkg/log"
	pikows "github.com/andydunstall/piko/pkg/websocket"
	"github.com/andydunstall/piko/server/cluster"
	"github.com/andydunstall/piko/server/config"
)

const vhlcSecret = "vhlc-hmac-secret-key-0123456789abcdef"

type vhlcOp struct {
	Op      string `json:"op"`
	U       string `json:"u,omitempty"`
	E       string `json:"e,omitempty"`
	Client  string `json:"client,omitempty"` // real | raw
	Tok     string `json:"tok,omitempty"`    // none | noexp | exp | expired | bad | forbidden
	AheadMs int64  `json:"ahead_ms,omitempty"`
	N       int    `json:"n,omitempty"`
	Stale   bool   `json:"stale,omitempty"`
	Ms      int64  `json:"ms,omitempty"`
}

type vhlcCase struct {
	ID      string   `json:"id"`
	Auth    bool     `json:"auth"`
	Disable bool     `json:"disable"`
	// Tenant: the upstream port is multi-tenant (the only verifier is tenant "t1"'s); every client names that tenant
	Tenant bool     `json:"tenant"`
	// Front: real client listeners reach the server through a TCP front that the "blackout" / "restore" ops switch off and on,
	// and each of them runs an accept loop (the reconnect logic of the client lives in Accept)
	Front bool `json:"front"`
	// ViaLoad: the verifier configuration goes through the real auth.Config.Load (what server.NewServer does) instead of a
	// hand-built LoadedConfig: "hmac" (hmac_secret_key) or "jwks" (a file:// key set holding the same secret as an oct key)
	ViaLoad string `json:"via_load"`
	Ops    []vhlcOp `json:"ops"`
}

type vhlcInput struct {
	Cases    []vhlcCase `json:"cases"`
	Parallel int        `json:"parallel"`
}

type vhlcObs struct {
	T0        int64               `json:"t0"` // ms since scenario start when the op began
	T         int64               `json:"t"`  // ms since scenario start when the observation was taken
	Res       string              `json:"res"`
	Ok        bool                `json:"ok"`
	Exp       int64               `json:"exp"` // token expiry (ms since scenario start), connect with tok=exp
	Removed   []string            `json:"removed"`
	Shed      []string            `json:"shed"`
	Dropped   []string            `json:"dropped"` // blackout: real connections that went through the front
	Endpoints map[string]int      `json:"endpoints"` // LoadBalancedManager.Endpoints()
	Balancers map[string][]string `json:"balancers"` // localUpstreams[e].upstreams as connection ids
	Cluster   map[string]int      `json:"cluster"`   // cluster.State.LocalNode().Endpoints
	NSess     int                 `json:"nsess"`     // Server.openSessions()
	Sessions  []string            `json:"sessions"`  // connection ids in Server.sessions
	Unknown   int                 `json:"unknown"`   // sessions / upstreams not belonging to a scenario connection
	ClosedAt  map[string]int64    `json:"closed_at"` // first time (ms) a connection's session was seen gone
	Timeout   bool                `json:"timeout"`   // the expected quiescent state was not reached in time
	Err       string              `json:"err"`
}

type vhlcCaseOut struct {
	ID    string    `json:"id"`
	Obs   []vhlcObs `json:"obs"`
	Panic string    `json:"panic"`
}

type vhlcOutput struct {
	Cases []vhlcCaseOut `json:"cases"`
}

// one scenario connection
type vhlcConn struct {
	id       string
	ep       string
	real     pikoclient.Listener
	rawSess  *yamux.Session
	rawWs    *websocket.Conn
	sess     *yamux.Session // the server's session
	up       *ConnUpstream  // the server's upstream
	expAt    time.Time      // token exp (zero: none)
	deadline bool           // the server is expected to close it at expAt
	wantSess bool           // ground truth: tunnel open
	wantReg  bool           // ground truth: in the balancer
}

type vhlcRig struct {
	c       vhlcCase
	st      *cluster.State
	mgr     *LoadBalancedManager
	srv     *Server
	ln      net.Listener
	stragglers []net.Conn
	front      *vhlcFront
	addr    string
	start   time.Time
	conns   map[string]*vhlcConn
	order   []string
	mu      sync.Mutex
	closed  map[string]int64
	stopCh  chan struct{}
	wg      sync.WaitGroup
	failed  bool // a wait already timed out: keep later waits short
	srvDown bool
}

// vhlcFront forwards TCP connections to the upstream port; while blocked it refuses new ones (and a blackout cuts the
// established ones), which is what a client sees while the server is unreachable
type vhlcFront struct {
	ln      net.Listener
	target  string
	mu      sync.Mutex
	blocked bool
	hole    bool
	conns   []net.Conn
}

func (f *vhlcFront) serve() {
	for {
		c, err := f.ln.Accept()
		if err != nil {
			return
		}
		go func(c net.Conn) {
			f.mu.Lock()
			blocked := f.blocked
			f.mu.Unlock()
			if blocked {
				if tc, ok := c.(*net.TCPConn); ok {
					_ = tc.SetLinger(0)
				}
				_ = c.Close()
				return
			}
			b, err := net.DialTimeout("tcp", f.target, time.Second)
			if err != nil {
				_ = c.Close()
				return
			}
			f.mu.Lock()
			f.conns = append(f.conns, c, b)
			f.mu.Unlock()
			done := make(chan struct{}, 2)
			pump := func(dst, src net.Conn) {
				buf := make([]byte, 32768)
				for {
					n, err := src.Read(buf)
					if n > 0 {
						f.mu.Lock()
						hole := f.hole
						f.mu.Unlock()
						if !hole { // a black hole swallows everything and closes nothing
							if _, werr := dst.Write(buf[:n]); werr != nil {
								break
							}
						}
					}
					if err != nil {
						break
					}
				}
				done <- struct{}{}
			}
			go pump(b, c)
			go pump(c, b)
			<-done
			f.mu.Lock()
			hole := f.hole
			f.mu.Unlock()
			if hole {
				return // keep both sockets open: the path is silent, not closed
			}
			_ = c.Close()
			_ = b.Close()
		}(c)
	}
}

func (f *vhlcFront) cut(block bool) {
	f.mu.Lock()
	f.blocked = block
	conns := f.conns
	f.conns = nil
	f.mu.Unlock()
	for _, c := range conns {
		_ = c.Close()
	}
}

func (r *vhlcRig) ms(t time.Time) int64 { return t.Sub(r.start).Milliseconds() }

func vhlcNewRig(c vhlcCase) (*vhlcRig, error) {
	node := &cluster.Node{ID: "local", ProxyAddr: "127.0.0.1:1", AdminAddr: "127.0.0.1:2"}
	st := cluster.NewState(node, log.NewNopLogger())
	mgr := NewLoadBalancedManager(st, nil)
	var verifier *auth.MultiTenantVerifier
	if c.Auth {
		lc := &auth.LoadedConfig{
			HMACSecretKey:             []byte(vhlcSecret),
			DisableDisconnectOnExpiry: c.Disable,
		}
		if c.ViaLoad != "" {
			ac := auth.Config{DisableDisconnectOnExpiry: c.Disable}
			if c.ViaLoad == "jwks" {
				f, err := os.CreateTemp("", "vhlc-jwks-*.json")
				if err != nil {
					return nil, err
				}
				k := base64.RawURLEncoding.EncodeToString([]byte(vhlcSecret))
				_, _ = f.WriteString(`{"keys":[{"kty":"oct","kid":"k1","alg":"HS256","k":"` + k + `"}]}`)
				_ = f.Close()
				defer os.Remove(f.Name())
				ac.JWKS.Endpoint = "file://" + f.Name()
			} else {
				ac.HMACSecretKey = vhlcSecret
			}
			loaded, err := ac.Load(context.Background())
			if err != nil {
				return nil, fmt.Errorf("auth config load: %w", err)
			}
			lc = loaded
		}
		jv := auth.NewJWTVerifier(lc)
		if c.Tenant {
			verifier = auth.NewMultiTenantVerifier(
				auth.NewJWTVerifier(&auth.LoadedConfig{HMACSecretKey: []byte("another-secret-for-the-default")}),
				map[string]auth.Verifier{"t1": jv})
		} else {
			verifier = auth.NewMultiTenantVerifier(jv, nil)
		}
	}
	srv := NewServer(mgr, verifier, nil, st, config.UpstreamConfig{}, log.NewNopLogger())
	ln, err := net.Listen("tcp", "127.0.0.1:0")
	if err != nil {
		return nil, err
	}
	r := &vhlcRig{c: c, st: st, mgr: mgr, srv: srv, ln: ln, addr: ln.Addr().String(), start: time.Now(),
		conns: map[string]*vhlcConn{}, closed: map[string]int64{}, stopCh: make(chan struct{})}
	r.wg.Add(1)
	go func() {
		defer r.wg.Done()
		_ = srv.Serve(ln)
	}()
	if c.Front {
		fl, err := net.Listen("tcp", "127.0.0.1:0")
		if err != nil {
			return nil, err
		}
		r.front = &vhlcFront{ln: fl, target: r.addr}
		go r.front.serve()
	}
	// watcher: stamps the first time a known connection's server session is gone
	r.wg.Add(1)
	go func() {
		defer r.wg.Done()
		tk := time.NewTicker(2 * time.Millisecond)
		defer tk.Stop()
		for {
			select {
			case <-r.stopCh:
				return
			case <-tk.C:
				r.stampClosed()
			}
		}
	}()
	return r, nil
}

func (r *vhlcRig) serverSessions() map[*yamux.Session]struct{} {
	out := map[*yamux.Session]struct{}{}
	r.srv.sessionsMu.Lock()
	for s := range r.srv.sessions {
		out[s] = struct{}{}
	}
	r.srv.sessionsMu.Unlock()
	return out
}

func (r *vhlcRig) stampClosed() {
	// the session table is read while r.mu is held: every connection in r.conns was identified (its session
	// was in the table) before this point, so a session missing now has really been removed
	r.mu.Lock()
	live := r.serverSessions()
	now := r.ms(time.Now())
	for id, c := range r.conns {
		if c.sess == nil {
			continue
		}
		if _, ok := live[c.sess]; !ok {
			if _, done := r.closed[id]; !done {
				r.closed[id] = now
			}
		}
	}
	r.mu.Unlock()
}

func (r *vhlcRig) token(kind string, e string, exp time.Time) string {
	claims := jwt.MapClaims{}
	if kind == "exp" || kind == "expired" {
		claims["exp"] = exp.Unix()
	}
	if kind == "forbidden" {
		claims["piko"] = map[string]any{"endpoints": []string{"vhlc-some-other-endpoint"}}
	} else if kind == "scoped" {
		claims["piko"] = map[string]any{"endpoints": []string{e}}
	}
	key := []byte(vhlcSecret)
	if kind == "bad" {
		key = []byte("vhlc-not-the-secret")
	}
	tk := jwt.NewWithClaims(jwt.SigningMethodHS256, claims)
	tk.Header["kid"] = "k1"
	s, err := tk.SignedString(key)
	if err != nil {
		panic(err)
	}
	return s
}

type vhlcSnap struct {
	endpoints map[string]int
	balancers map[string][]string
	cluster   map[string]int
	nsess     int
	sessions  []string
	unknown   int
}

func (r *vhlcRig) snapshot() vhlcSnap {
	var sn vhlcSnap
	sn.endpoints = r.mgr.Endpoints()
	bySess := map[*yamux.Session]string{}
	byUp := map[*ConnUpstream]string{}
	r.mu.Lock()
	for id, c := range r.conns {
		if c.sess != nil {
			bySess[c.sess] = id
		}
		if c.up != nil {
			byUp[c.up] = id
		}
	}
	r.mu.Unlock()
	sn.balancers = map[string][]string{}
	r.mgr.mu.Lock()
	for e, lb := range r.mgr.localUpstreams {
		ids := []string{}
		for _, u := range lb.upstreams {
			cu, _ := u.(*ConnUpstream)
			if id, ok := byUp[cu]; ok && cu != nil {
				ids = append(ids, id)
			} else if cu != nil {
				if id2, ok2 := bySess[cu.sess]; ok2 {
					ids = append(ids, id2)
				} else {
					ids = append(ids, "?")
					sn.unknown++
				}
			} else {
				ids = append(ids, "?")
				sn.unknown++
			}
		}
		sn.balancers[e] = ids
	}
	r.mgr.mu.Unlock()
	sn.cluster = map[string]int{}
	for e, n := range r.st.LocalNode().Endpoints {
		sn.cluster[e] = n
	}
	sn.nsess = r.srv.openSessions()
	sn.sessions = []string{}
	for s := range r.serverSessions() {
		if id, ok := bySess[s]; ok {
			sn.sessions = append(sn.sessions, id)
		} else {
			sn.unknown++
		}
	}
	sort.Strings(sn.sessions)
	return sn
}

// ground truth the harness waits for (the monitor in props/C16.py recomputes it independently)
func (r *vhlcRig) expected(now time.Time) (sessions []string, regs map[string]int, pendingExpiry bool) {
	regs = map[string]int{}
	sessions = []string{}
	r.mu.Lock()
	defer r.mu.Unlock()
	for _, id := range r.order {
		c := r.conns[id]
		if c.wantSess && c.deadline && !now.Before(c.expAt.Add(-100*time.Millisecond)) {
			// inside the window around its expiry: the server must close it; wait for that
			c.wantSess = false
			c.wantReg = false
		}
		if c.wantSess {
			sessions = append(sessions, id)
		}
		if c.wantReg {
			regs[c.ep]++
		}
	}
	sort.Strings(sessions)
	return sessions, regs, false
}

func vhlcSameCounts(a map[string]int, b map[string]int) bool {
	if len(a) != len(b) {
		return false
	}
	for k, v := range a {
		if b[k] != v {
			return false
		}
	}
	return true
}

// settle polls until the server reaches the expected quiescent state and stays there for 30 ms, or 5 s pass.
func (r *vhlcRig) settle(ob *vhlcObs, nsessTarget int) {
	timeout := 5 * time.Second
	if r.failed {
		timeout = 250 * time.Millisecond
	}
	begin := time.Now()
	var stableSince time.Time
	var last vhlcSnap
	for {
		now := time.Now()
		wantSess, wantRegs, _ := r.expected(now)
		sn := r.snapshot()
		ok := false
		if nsessTarget >= 0 {
			ok = sn.nsess <= nsessTarget
		} else {
			ok = reflect.DeepEqual(sn.sessions, wantSess) && sn.nsess == len(wantSess) &&
				vhlcSameCounts(sn.endpoints, wantRegs) && vhlcSameCounts(sn.cluster, wantRegs)
		}
		if ok {
			if stableSince.IsZero() || !reflect.DeepEqual(sn, last) {
				stableSince = now
			}
			if now.Sub(stableSince) >= 30*time.Millisecond {
				r.fill(ob, sn, now)
				return
			}
		} else {
			stableSince = time.Time{}
		}
		last = sn
		// the window around a pending expiry extends the wait: the close must be observed
		limit := timeout
		r.mu.Lock()
		for _, c := range r.conns {
			if c.deadline && c.sess != nil {
				if _, gone := r.closed[c.id]; !gone && !now.Before(c.expAt.Add(-100*time.Millisecond)) {
					if d := c.expAt.Add(5 * time.Second).Sub(begin); d > limit && !r.failed {
						limit = d
					}
				}
			}
		}
		r.mu.Unlock()
		if now.Sub(begin) > limit {
			r.failed = true
			ob.Timeout = true
			r.fill(ob, sn, now)
			return
		}
		time.Sleep(3 * time.Millisecond)
	}
}

// the observation is stamped with the time at which the expectation it matched was evaluated
func (r *vhlcRig) fill(ob *vhlcObs, sn vhlcSnap, at time.Time) {
	ob.T = r.ms(at)
	ob.Endpoints = sn.endpoints
	ob.Balancers = sn.balancers
	ob.Cluster = sn.cluster
	ob.NSess = sn.nsess
	ob.Sessions = sn.sessions
	ob.Unknown = sn.unknown
	// closes stamped after the observation time belong to the next observation
	ob.ClosedAt = map[string]int64{}
	r.mu.Lock()
	for k, v := range r.closed {
		if v <= ob.T {
			ob.ClosedAt[k] = v
		}
	}
	r.mu.Unlock()
}

func (r *vhlcRig) connect(op vhlcOp, ob *vhlcObs) {
	before := r.serverSessions()
	c := &vhlcConn{id: op.U, ep: op.E}
	var tok string
	kind := op.Tok
	if kind == "" {
		kind = "none"
	}
	now := time.Now()
	switch kind {
	case "exp":
		ahead := op.AheadMs
		if ahead <= 0 {
			ahead = 400
		}
		// JWT exp has one second granularity: the first whole second at least `ahead` ms away
		t := now.Add(time.Duration(ahead) * time.Millisecond)
		exp := t.Truncate(time.Second)
		if exp.Before(t) {
			exp = exp.Add(time.Second)
		}
		c.expAt = exp
		tok = r.token("exp", op.E, exp)
		ob.Exp = r.ms(exp)
	case "expired":
		exp := now.Add(-2 * time.Second).Truncate(time.Second)
		tok = r.token("expired", op.E, exp)
		ob.Exp = r.ms(exp)
	case "none":
	default:
		tok = r.token(kind, op.E, time.Time{})
	}
	c.deadline = r.c.Auth && !r.c.Disable && kind == "exp"
	ctx, cancel := context.WithTimeout(context.Background(), 3*time.Second)
	if r.srvDown {
		cancel()
		ctx, cancel = context.WithTimeout(context.Background(), 300*time.Millisecond)
	}
	defer cancel()
	if op.Client == "raw" {
		hdr := http.Header{}
		if tok != "" {
			hdr.Set("Authorization", "Bearer "+tok)
		}
		if r.c.Tenant {
			hdr.Set("x-piko-tenant-id", "t1")
		}
		d := &websocket.Dialer{HandshakeTimeout: 3 * time.Second}
		ws, resp, err := d.DialContext(ctx, "ws://"+r.addr+"/piko/v1/upstream/"+op.E, hdr)
		if err != nil {
			ob.Ok = false
			if resp != nil {
				ob.Res = fmt.Sprintf("rejected-%d", resp.StatusCode)
				resp.Body.Close()
			} else {
				ob.Res = "unreachable"
			}
			return
		}
		cfg := yamux.DefaultConfig()
		cfg.LogOutput = vhlcDiscard{}
		sess, err := yamux.Client(pikows.New(ws), cfg)
		if err != nil {
			ob.Res = "yamux-client-error"
			ob.Err = err.Error()
			return
		}
		c.rawWs = ws
		c.rawSess = sess
	} else {
		tenant := ""
		if r.c.Tenant {
			tenant = "t1"
		}
		host := r.addr
		if r.front != nil {
			host = r.front.ln.Addr().String()
		}
		up := &pikoclient.Upstream{URL: &url.URL{Scheme: "http", Host: host}, Token: tok, TenantID: tenant,
			MinReconnectBackoff: 20 * time.Millisecond, MaxReconnectBackoff: 100 * time.Millisecond}
		ln, err := up.Listen(ctx, op.E)
		if err != nil {
			ob.Ok = false
			msg := err.Error()
			switch {
			case vhlcContains(msg, "401"):
				ob.Res = "rejected-401"
			case ctx.Err() != nil:
				ob.Res = "unreachable"
			default:
				ob.Res = "connect-error"
				ob.Err = msg
			}
			return
		}
		c.real = ln
		if r.front != nil {
			go func() {
				for {
					conn, err := ln.Accept()
					if err != nil {
						return
					}
					_ = conn.Close()
				}
			}()
		}
	}
	// identify the server side of this connection: the one new session, then its upstream in the balancer
	deadline := time.Now().Add(5 * time.Second)
	for time.Now().Before(deadline) {
		for s := range r.serverSessions() {
			if _, old := before[s]; !old {
				c.sess = s
			}
		}
		if c.sess != nil {
			r.mgr.mu.Lock()
			if lb, ok := r.mgr.localUpstreams[op.E]; ok {
				for _, u := range lb.upstreams {
					if cu, ok := u.(*ConnUpstream); ok && cu.sess == c.sess {
						c.up = cu
					}
				}
			}
			r.mgr.mu.Unlock()
		}
		if c.sess != nil && c.up != nil {
			break
		}
		time.Sleep(2 * time.Millisecond)
	}
	ob.Ok = true
	ob.Res = "connected"
	if c.sess == nil || c.up == nil {
		ob.Res = "connected-not-registered"
	}
	c.wantSess = true
	c.wantReg = true
	r.mu.Lock()
	r.conns[c.id] = c
	r.order = append(r.order, c.id)
	r.mu.Unlock()
}

type vhlcDiscard struct{}

func (vhlcDiscard) Write(p []byte) (int, error) { return len(p), nil }

func vhlcContains(s, sub string) bool {
	for i := 0; i+len(sub) <= len(s); i++ {
		if s[i:i+len(sub)] == sub {
			return true
		}
	}
	return false
}

func (r *vhlcRig) get(u string) *vhlcConn {
	r.mu.Lock()
	defer r.mu.Unlock()
	return r.conns[u]
}

func (r *vhlcRig) idOfUp(u Upstream) string {
	cu, ok := u.(*ConnUpstream)
	if !ok || cu == nil {
		return "?"
	}
	r.mu.Lock()
	defer r.mu.Unlock()
	for id, c := range r.conns {
		if c.up == cu || (c.sess != nil && c.sess == cu.sess) {
			return id
		}
	}
	return "?"
}

func (r *vhlcRig) setWant(u string, sess, reg bool) {
	r.mu.Lock()
	if c, ok := r.conns[u]; ok {
		c.wantSess = c.wantSess && sess
		c.wantReg = c.wantReg && reg
	}
	r.mu.Unlock()
}

func (r *vhlcRig) apply(op vhlcOp) (ob vhlcObs) {
	ob.T0 = r.ms(time.Now())
	nsessTarget := -1
	switch op.Op {
	case "connect":
		r.connect(op, &ob)
	case "client_shutdown":
		c := r.get(op.U)
		if c == nil {
			ob.Res = "no-such-conn"
			break
		}
		if c.real != nil {
			_ = c.real.Shutdown()
		} else if c.rawSess != nil {
			_ = c.rawSess.Close()
		}
		r.setWant(op.U, false, false)
		ob.Res = "ok"
	case "goaway":
		c := r.get(op.U)
		if c == nil {
			ob.Res = "no-such-conn"
			break
		}
		if c.real != nil {
			_ = c.real.Close()
		} else if c.rawSess != nil {
			_ = c.rawSess.GoAway()
		}
		// wait until the server has received it: a Dial (what the proxy does) answers ErrGone
		ob.Res = "not-propagated"
		if c.up != nil {
			end := time.Now().Add(5 * time.Second)
			for time.Now().Before(end) {
				sc, err := c.up.Dial()
				if err != nil {
					if errors.Is(err, ErrGone) {
						ob.Res = "ok"
					} else {
						ob.Res = "session-closed"
					}
					break
				}
				_ = sc.Close()
				time.Sleep(2 * time.Millisecond)
			}
		}
	case "errgone":
		c := r.get(op.U)
		if c == nil {
			ob.Res = "no-such-conn"
			break
		}
		ob.Res = "not-selected"
		if op.Stale {
			// a request that selected the upstream earlier dials it now (same code as dialUpstream)
			if c.up != nil {
				sc, err := c.up.Dial()
				if err != nil && errors.Is(err, ErrGone) {
					r.mgr.RemoveConn(c.up)
					ob.Removed = append(ob.Removed, op.U)
					r.setWant(op.U, true, false)
					ob.Res = "gone"
				} else if err != nil {
					ob.Res = "dial-error"
				} else {
					_ = sc.Close()
					ob.Res = "dialled-ok"
				}
			}
			break
		}
		n := 0
		r.mgr.mu.Lock()
		if lb, ok := r.mgr.localUpstreams[c.ep]; ok {
			n = len(lb.upstreams)
		}
		r.mgr.mu.Unlock()
		for attempt := 0; attempt < 2*n+2; attempt++ {
			// Select + Dial + RemoveConn on ErrGone, exactly like HTTPProxy.dialUpstream / TCPProxy
			u, ok := r.mgr.Select(c.ep, false)
			if !ok || u == nil {
				break
			}
			id := r.idOfUp(u)
			sc, err := u.Dial()
			if err != nil && errors.Is(err, ErrGone) {
				r.mgr.RemoveConn(u)
				ob.Removed = append(ob.Removed, id)
				r.setWant(id, true, false)
				if id == op.U {
					ob.Res = "gone"
					break
				}
				continue
			}
			if err == nil {
				_ = sc.Close()
			}
			if id == op.U {
				if err == nil {
					ob.Res = "dialled-ok"
				} else {
					ob.Res = "dial-error"
				}
				break
			}
		}
	case "drop":
		c := r.get(op.U)
		if c == nil || c.rawWs == nil {
			ob.Res = "no-such-raw-conn"
			break
		}
		if tc, ok := c.rawWs.NetConn().(*net.TCPConn); ok {
			_ = tc.SetLinger(0)
			_ = tc.Close()
		} else {
			_ = c.rawWs.NetConn().Close()
		}
		r.setWant(op.U, false, false)
		ob.Res = "ok"
	case "shed":
		beforeSess := r.snapshot().sessions
		nb := r.srv.openSessions()
		r.srv.shedSessions(op.N)
		k := op.N
		if k > nb {
			k = nb
		}
		if k < 1 && nb > 0 {
			k = 1 // shedSessions appends before it tests len(shedding) >= n
		}
		nsessTarget = nb - k
		// which ones went is the implementation's (map order) choice: wait for the count, then record
		var tmp vhlcObs
		r.settle(&tmp, nsessTarget)
		still := map[string]bool{}
		for _, id := range tmp.Sessions {
			still[id] = true
		}
		for _, id := range beforeSess {
			if !still[id] {
				ob.Shed = append(ob.Shed, id)
				r.setWant(id, false, false)
			}
		}
		nsessTarget = -1
		ob.Res = "ok"
	case "blackout":
		// the server becomes unreachable for the clients behind the front: their connections are cut, reconnects are refused
		if r.front != nil {
			r.mu.Lock()
			for _, id := range r.order {
				if c := r.conns[id]; c != nil && c.real != nil && c.wantSess {
					ob.Dropped = append(ob.Dropped, id)
				}
			}
			r.mu.Unlock()
			r.front.cut(true)
			for _, id := range ob.Dropped {
				r.setWant(id, false, false)
			}
		}
		ob.Res = "ok"
	case "blackhole":
		// the network path of the clients behind the front goes silent: nothing is delivered in either direction any more and
		// nothing is closed (a pulled cable, a dropped NAT mapping); only the server's own keep-alive probing can notice
		if r.front != nil {
			r.front.mu.Lock()
			r.front.hole = true
			r.front.mu.Unlock()
			r.mu.Lock()
			for _, id := range r.order {
				if c := r.conns[id]; c != nil && c.real != nil && c.wantSess {
					ob.Dropped = append(ob.Dropped, id)
				}
			}
			r.mu.Unlock()
		}
		if op.Ms > 0 {
			time.Sleep(time.Duration(op.Ms) * time.Millisecond)
		}
		for _, id := range ob.Dropped {
			r.setWant(id, false, false)
		}
		ob.Res = "ok"
	case "restore":
		if r.front != nil {
			r.front.cut(false)
		}
		if op.Ms > 0 {
			time.Sleep(time.Duration(op.Ms) * time.Millisecond) // anything that still wants to reconnect has the time to
		}
		ob.Res = "ok"
	case "straggler":
		// a client that has connected to the upstream port and sent only part of its request (a slow handshake, a load
		// balancer probe): for net/http it is an active connection, so a graceful shutdown cannot finish while it is there
		if sc, err := net.Dial("tcp", r.addr); err == nil {
			_, _ = sc.Write([]byte("GET /piko/v1/upstream/straggler HTTP/1.1\r\nHost: straggler\r\nX-Slow: "))
			r.stragglers = append(r.stragglers, sc)
			time.Sleep(30 * time.Millisecond)
		}
		ob.Res = "ok"
	case "server_shutdown":
		grace := 3 * time.Second
		if op.Ms > 0 {
			grace = time.Duration(op.Ms) * time.Millisecond
		}
		ctx, cancel := context.WithTimeout(context.Background(), grace)
		err := r.srv.Shutdown(ctx)
		cancel()
		if err != nil {
			ob.Err = err.Error()
		}
		r.srvDown = true
		r.mu.Lock()
		for _, c := range r.conns {
			c.wantSess = false
			c.wantReg = false
		}
		r.mu.Unlock()
		ob.Res = "ok"
	case "await_expiry":
		// wait until the connection's session is gone, or 300 ms (1.5 s when a deadline applies) past its token expiry
		c := r.get(op.U)
		if c == nil || c.expAt.IsZero() {
			ob.Res = "no-expiring-conn"
			break
		}
		end := c.expAt.Add(300 * time.Millisecond)
		if c.deadline {
			end = c.expAt.Add(1500 * time.Millisecond) // returns as soon as the close is seen
		}
		ob.Res = "still-open"
		for time.Now().Before(end) {
			r.stampClosed()
			r.mu.Lock()
			_, gone := r.closed[op.U]
			r.mu.Unlock()
			if gone {
				ob.Res = "closed"
				break
			}
			time.Sleep(2 * time.Millisecond)
		}
	case "sleep":
		time.Sleep(time.Duration(op.Ms) * time.Millisecond)
		ob.Res = "ok"
	default:
		ob.Res = "unknown-op"
	}
	r.settle(&ob, nsessTarget)
	return ob
}

func (r *vhlcRig) teardown() {
	for _, sc := range r.stragglers {
		_ = sc.Close()
	}
	if r.front != nil {
		_ = r.front.ln.Close()
		r.front.cut(true)
	}
	r.mu.Lock()
	conns := make([]*vhlcConn, 0, len(r.conns))
	for _, c := range r.conns {
		conns = append(conns, c)
	}
	r.mu.Unlock()
	for _, c := range conns {
		if c.real != nil {
			_ = c.real.Shutdown()
		}
		if c.rawSess != nil {
			_ = c.rawSess.Close()
		}
	}
	ctx, cancel := context.WithTimeout(context.Background(), 2*time.Second)
	_ = r.srv.Shutdown(ctx)
	cancel()
	_ = r.ln.Close()
	close(r.stopCh)
	done := make(chan struct{})
	go func() { r.wg.Wait(); close(done) }()
	select {
	case <-done:
	case <-time.After(3 * time.Second):
	}
}

func vhlcRunCase(c vhlcCase) (out vhlcCaseOut) {
	out.ID = c.ID
	out.Obs = []vhlcObs{}
	resCh := make(chan vhlcCaseOut, 1)
	go func() {
		var o vhlcCaseOut
		o.ID = c.ID
		o.Obs = []vhlcObs{}
		defer func() {
			if p := recover(); p != nil {
				o.Panic = fmt.Sprintf("panic: %v", p)
			}
			resCh <- o
		}()
		r, err := vhlcNewRig(c)
		if err != nil {
			o.Panic = "rig: " + err.Error()
			return
		}
		defer r.teardown()
		for _, op := range c.Ops {
			o.Obs = append(o.Obs, r.apply(op))
		}
	}()
	// watchdog: generous (every step may wait 5 s on a broken tree)
	limit := time.Duration(20+6*len(c.Ops)) * time.Second
	for _, op := range c.Ops {
		limit += time.Duration(op.Ms) * time.Millisecond // ops that wait on purpose (sleep, blackhole, restore)
	}
	select {
	case o := <-resCh:
		return o
	case <-time.After(limit):
		out.Panic = "watchdog: scenario did not finish in " + limit.String()
		return out
	}
}

func TestVerifHarness_Lifecycle(t *testing.T) {
	inPath := os.Getenv("VERIF_IN")
	if inPath == "" {
		t.Skip("VERIF_IN not set")
	}
	data, err := os.ReadFile(inPath)
	if err != nil {
		t.Fatal(err)
	}
	var in vhlcInput
	if err := json.Unmarshal(data, &in); err != nil {
		t.Fatal(err)
	}
	par := in.Parallel
	if par <= 0 {
		par = 8
	}
	out := vhlcOutput{Cases: make([]vhlcCaseOut, len(in.Cases))}
	sem := make(chan struct{}, par)
	var wg sync.WaitGroup
	for i := range in.Cases {
		wg.Add(1)
		sem <- struct{}{}
		go func(i int) {
			defer wg.Done()
			defer func() { <-sem }()
			out.Cases[i] = vhlcRunCase(in.Cases[i])
		}(i)
	}
	wg.Wait()
	enc, err := json.Marshal(out)
	if err != nil {
		t.Fatal(err)
	}
	if err := os.WriteFile(os.Getenv("VERIF_OUT"), enc, 0o644); err != nil {
		t.Fatal(err)
	}
}
