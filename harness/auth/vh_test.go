//go:build verif

// Verification harness for properties C09 / C10. Injected into package server with `go test -overlay`
// (never copied into /repo). Builds the three REAL servers (proxy, upstream, admin + the status routes, as
// server.NewServer wires them) on loopback listeners, with real verification keys and really signed JWTs, sends
// the requests of the input script and records status, error body and what reached the stub upstream manager /
// the stub admin peer. In "wired" cases the servers come from the real server.NewServer(conf) instead.
package server

import (
	"context"
	"crypto/ecdsa"
	"crypto/ed25519"
	"crypto/elliptic"
	"crypto/rand"
	"crypto/rsa"
	"crypto/x509"
	"encoding/base64"
	"encoding/json"
	"encoding/pem"
	"fmt"
	"io"
	"math/big"
	"net"
	"net/http"
	"os"
	"path/filepath"
	"sort"
	"strings"
	"sync"
	"testing"
	"time"

	"github.com/golang-jwt/jwt/v5"
	"github.com/gorilla/websocket"
	"github.com/prometheus/client_golang/prometheus"

	"github.com/andydunstall/piko/pkg/auth"
	"github.com/andydunstall/piko/pkg/log"
	"github.com/andydunstall/piko/server/admin"
	"github.com/andydunstall/piko/server/cluster"
	"github.com/andydunstall/piko/server/config"
	"github.com/andydunstall/piko/server/gossip"
	"github.com/andydunstall/piko/server/proxy"
	"github.com/andydunstall/piko/server/upstream"
)

// ---------------------------------------------------------------- input / output
type vhauJWK struct {
	Kid string `json:"kid"`
	Key string `json:"key"`
	Alg string `json:"alg"`
}

type vhauVcfg struct {
	HMAC  string     `json:"hmac"`
	RSA   string     `json:"rsa"`
	ECDSA string     `json:"ecdsa"`
	JWKS  *[]vhauJWK `json:"jwks"`
	Aud   string     `json:"aud"`
	Iss   string     `json:"iss"`
	NoExp bool       `json:"noexp"`
}

type vhauTenant struct {
	ID  string   `json:"id"`
	Cfg vhauVcfg `json:"cfg"`
}

type vhauMtv struct {
	Default vhauVcfg     `json:"default"`
	Tenants []vhauTenant `json:"tenants"`
}

type vhauPort struct {
	Verifier *vhauMtv `json:"verifier"`
	Cluster  bool     `json:"cluster"`
	Registry bool     `json:"registry"`
}

type vhauTok struct {
	Raw       *string  `json:"raw"`     // literal token string (malformed tokens)
	Alg       string   `json:"alg"`     // signing method
	HdrAlg    string   `json:"hdr_alg"` // header alg override ("" = Alg)
	Key       string   `json:"key"`     // signing key name ("" for none)
	Kid       *string  `json:"kid"`
	Exp       *int64   `json:"exp"` // offset in seconds from the moment of minting
	Nbf       *int64   `json:"nbf"`
	Aud       []string `json:"aud"`
	AudSingle bool     `json:"aud_single"`
	Iss       *string  `json:"iss"`
	Endpoints []string `json:"endpoints"`
	HasEps    bool     `json:"has_eps"`
	Tamper    string   `json:"tamper"` // "", header, payload, signature, claims
}

type vhauHdr struct {
	Prefix string   `json:"prefix"`
	Tok    *vhauTok `json:"tok"`
	Suffix string   `json:"suffix"`
}

type vhauStep struct {
	Port      string   `json:"port"`
	Method    string   `json:"method"`
	Path      string   `json:"path"`
	Query     string   `json:"query"`
	Host      string   `json:"host"`
	XEndpoint string   `json:"xendpoint"`
	XAuth     *vhauHdr `json:"xauth"`
	Auth      *vhauHdr `json:"auth"`
	Tenant    string   `json:"tenant"`
	// ReuseMs > 0 (plain HTTP steps, last steps of a case only): the identical request - the very same token bytes - is sent
	// once more this many milliseconds later; its status is reported in the case's "reuse" list
	ReuseMs int `json:"reuse_ms"`
}

type vhauReuse struct {
	Step   int   `json:"step"`
	Status int   `json:"status"`
	NowNs  int64 `json:"now_ns"`
	Fail   string `json:"fail"`
}

type vhauCase struct {
	ID       string     `json:"id"`
	Wired    bool       `json:"wired"`
	Proxy    vhauPort   `json:"proxy"`
	Upstream vhauPort   `json:"upstream"`
	Admin    vhauPort   `json:"admin"`
	Steps    []vhauStep `json:"steps"`
}

type vhauInput struct {
	Cases []vhauCase `json:"cases"`
}

type vhauTimes struct {
	Exp *int64 `json:"exp"`
	Nbf *int64 `json:"nbf"`
}

type vhauObs struct {
	Status   int        `json:"status"`
	Err      string     `json:"err"`
	Select   []string   `json:"select"`
	AddConn  []string   `json:"addconn"`
	Forward  int        `json:"forward"`
	NowNs    int64      `json:"now_ns"`
	XAuthHdr string     `json:"xauth_hdr"` // header value as sent, the token replaced by "@"
	AuthHdr  string     `json:"auth_hdr"`
	XAuthT   *vhauTimes `json:"xauth_t"`
	AuthT    *vhauTimes `json:"auth_t"`
	Location string     `json:"location"`
	Fail     string     `json:"fail"` // harness-level failure (timeout, transport error)
	DurUs    int64      `json:"dur_us"`
}

type vhauCaseOut struct {
	DeployUs int64  `json:"deploy_us"`
	CloseUs  int64  `json:"close_us"`
	ID    string    `json:"id"`
	Obs   []vhauObs `json:"obs"`
	Panic string    `json:"panic"`
	Local string    `json:"local"`
	Reuse []vhauReuse `json:"reuse"`
}

type vhauOutput struct {
	Cases []vhauCaseOut `json:"cases"`
}

// ---------------------------------------------------------------- keys
type vhauKeys struct {
	hmac map[string][]byte
	rsa  map[string]*rsa.PrivateKey
	ec   map[string]*ecdsa.PrivateKey
	ed   map[string]ed25519.PrivateKey

	reuse     *[]vhauReuse
	reuseMu   sync.Mutex
	reuseWG   sync.WaitGroup
	reuseStep int
}

func vhauNewKeys() *vhauKeys {
	k := &vhauKeys{hmac: map[string][]byte{}, rsa: map[string]*rsa.PrivateKey{}, ec: map[string]*ecdsa.PrivateKey{}, ed: map[string]ed25519.PrivateKey{}}
	k.hmac["hmacA"] = []byte("secret-A-0123456789abcdef0123456789")
	k.hmac["hmacB"] = []byte("secret-B-fedcba9876543210fedcba9876")
	k.hmac["hmacC"] = []byte("secret-C-00112233445566778899aabbcc")
	k.hmac["hmacEmpty"] = []byte{}
	for _, n := range []string{"rsaA", "rsaB"} {
		pk, err := rsa.GenerateKey(rand.Reader, 2048)
		if err != nil {
			panic(err)
		}
		k.rsa[n] = pk
	}
	for n, c := range map[string]elliptic.Curve{"ecA256": elliptic.P256(), "ecB256": elliptic.P256(), "ecA384": elliptic.P384(), "ecA521": elliptic.P521()} {
		pk, err := ecdsa.GenerateKey(c, rand.Reader)
		if err != nil {
			panic(err)
		}
		k.ec[n] = pk
	}
	_, ed, err := ed25519.GenerateKey(rand.Reader)
	if err != nil {
		panic(err)
	}
	k.ed["edA"] = ed
	return k
}

func (k *vhauKeys) pubPEM(name string) []byte {
	var pub any
	if r, ok := k.rsa[name]; ok {
		pub = &r.PublicKey
	} else if e, ok := k.ec[name]; ok {
		pub = &e.PublicKey
	} else {
		panic("no public key " + name)
	}
	der, err := x509.MarshalPKIXPublicKey(pub)
	if err != nil {
		panic(err)
	}
	return pem.EncodeToMemory(&pem.Block{Type: "PUBLIC KEY", Bytes: der})
}

func vhauB64(b []byte) string { return base64.RawURLEncoding.EncodeToString(b) }

func vhauPad(b *big.Int, n int) []byte {
	out := make([]byte, n)
	b.FillBytes(out)
	return out
}

func (k *vhauKeys) jwksJSON(keys []vhauJWK) []byte {
	var out []map[string]string
	for _, j := range keys {
		m := map[string]string{"kid": j.Kid}
		if j.Alg != "" {
			m["alg"] = j.Alg
		}
		if r, ok := k.rsa[j.Key]; ok {
			m["kty"] = "RSA"
			m["n"] = vhauB64(r.PublicKey.N.Bytes())
			m["e"] = vhauB64(big.NewInt(int64(r.PublicKey.E)).Bytes())
		} else if e, ok := k.ec[j.Key]; ok {
			m["kty"] = "EC"
			m["crv"] = e.Curve.Params().Name
			n := (e.Curve.Params().BitSize + 7) / 8
			m["x"] = vhauB64(vhauPad(e.X, n))
			m["y"] = vhauB64(vhauPad(e.Y, n))
		} else if h, ok := k.hmac[j.Key]; ok {
			m["kty"] = "oct"
			m["k"] = vhauB64(h)
		} else if d, ok := k.ed[j.Key]; ok {
			m["kty"] = "OKP"
			m["crv"] = "Ed25519"
			m["x"] = vhauB64(d.Public().(ed25519.PublicKey))
		} else {
			panic("unknown key " + j.Key)
		}
		out = append(out, m)
	}
	if out == nil {
		out = []map[string]string{}
	}
	b, _ := json.Marshal(map[string]any{"keys": out})
	return b
}

// loaded builds the auth.LoadedConfig for a verifier spec; the JWK set goes through the real
// JWKSConfig.Load (file:// endpoint -> keyfunc.NewJWKSetJSON)
func (k *vhauKeys) loaded(c vhauVcfg, dir string, tag string) (*auth.LoadedConfig, error) {
	lc := &auth.LoadedConfig{Audience: c.Aud, Issuer: c.Iss, DisableDisconnectOnExpiry: c.NoExp}
	if c.HMAC != "" {
		lc.HMACSecretKey = k.hmac[c.HMAC]
	}
	if c.RSA != "" {
		lc.RSAPublicKey = &k.rsa[c.RSA].PublicKey
	}
	if c.ECDSA != "" {
		lc.ECDSAPublicKey = &k.ec[c.ECDSA].PublicKey
	}
	if c.JWKS != nil {
		path := filepath.Join(dir, "jwks-"+tag+".json")
		if err := os.WriteFile(path, k.jwksJSON(*c.JWKS), 0o600); err != nil {
			return nil, err
		}
		jc := auth.JWKSConfig{Endpoint: "file://" + path}
		lj, err := jc.Load(context.Background())
		if err != nil {
			return nil, fmt.Errorf("jwks load: %w", err)
		}
		lc.JWKS = lj
	}
	return lc, nil
}

// authConfig builds the textual auth.Config (wired cases: goes through the real Config.Load)
func (k *vhauKeys) authConfig(c vhauVcfg, dir string, tag string) (auth.Config, error) {
	ac := auth.Config{Audience: c.Aud, Issuer: c.Iss, DisableDisconnectOnExpiry: c.NoExp}
	if c.HMAC != "" {
		ac.HMACSecretKey = string(k.hmac[c.HMAC])
	}
	if c.RSA != "" {
		ac.RSAPublicKey = string(k.pubPEM(c.RSA))
	}
	if c.ECDSA != "" {
		ac.ECDSAPublicKey = string(k.pubPEM(c.ECDSA))
	}
	if c.JWKS != nil {
		path := filepath.Join(dir, "jwks-"+tag+".json")
		if err := os.WriteFile(path, k.jwksJSON(*c.JWKS), 0o600); err != nil {
			return ac, err
		}
		ac.JWKS.Endpoint = "file://" + path
	}
	return ac, nil
}

func (k *vhauKeys) verifier(m *vhauMtv, dir, tag string) (*auth.MultiTenantVerifier, error) {
	if m == nil {
		return nil, nil
	}
	lc, err := k.loaded(m.Default, dir, tag+"-d")
	if err != nil {
		return nil, err
	}
	var tenants map[string]auth.Verifier
	if m.Tenants != nil {
		tenants = map[string]auth.Verifier{}
		for i, t := range m.Tenants {
			tc, err := k.loaded(t.Cfg, dir, fmt.Sprintf("%s-t%d", tag, i))
			if err != nil {
				return nil, err
			}
			tenants[t.ID] = auth.NewJWTVerifier(tc)
		}
	}
	return auth.NewMultiTenantVerifier(auth.NewJWTVerifier(lc), tenants), nil
}

// ---------------------------------------------------------------- minting
func vhauFlip(seg string) string {
	if seg == "" {
		return "A"
	}
	c := byte('A')
	if seg[0] == 'A' {
		c = 'B'
	}
	return string(c) + seg[1:]
}

func (k *vhauKeys) mint(ts *vhauTok, now time.Time) (string, *vhauTimes, error) {
	if ts.Raw != nil {
		return *ts.Raw, &vhauTimes{}, nil
	}
	times := &vhauTimes{}
	claims := jwt.MapClaims{}
	if ts.Exp != nil {
		e := now.Unix() + *ts.Exp
		times.Exp = &e
		claims["exp"] = e
	}
	if ts.Nbf != nil {
		n := now.Unix() + *ts.Nbf
		times.Nbf = &n
		claims["nbf"] = n
	}
	if ts.Aud != nil {
		if ts.AudSingle && len(ts.Aud) == 1 {
			claims["aud"] = ts.Aud[0]
		} else {
			claims["aud"] = ts.Aud
		}
	}
	if ts.Iss != nil {
		claims["iss"] = *ts.Iss
	}
	if ts.HasEps {
		eps := ts.Endpoints
		if eps == nil {
			eps = []string{}
		}
		claims["piko"] = map[string]any{"endpoints": eps}
	}
	method := jwt.GetSigningMethod(ts.Alg)
	if method == nil {
		return "", nil, fmt.Errorf("unknown signing method %q", ts.Alg)
	}
	var key any
	switch method.(type) {
	case *jwt.SigningMethodHMAC:
		if h, ok := k.hmac[ts.Key]; ok {
			key = h
		} else {
			// cross-family: the PEM of a public key used as the HMAC secret
			key = k.pubPEM(ts.Key)
		}
	case *jwt.SigningMethodRSA, *jwt.SigningMethodRSAPSS:
		key = k.rsa[ts.Key]
	case *jwt.SigningMethodECDSA:
		key = k.ec[ts.Key]
	case *jwt.SigningMethodEd25519:
		key = k.ed[ts.Key]
	default:
		key = jwt.UnsafeAllowNoneSignatureType
	}
	tok := jwt.NewWithClaims(method, claims)
	if ts.Kid != nil {
		tok.Header["kid"] = *ts.Kid
	}
	if ts.HdrAlg != "" {
		tok.Header["alg"] = ts.HdrAlg
	}
	s, err := tok.SignedString(key)
	if err != nil {
		return "", nil, fmt.Errorf("sign %s with %s: %w", ts.Alg, ts.Key, err)
	}
	parts := strings.Split(s, ".")
	switch ts.Tamper {
	case "":
	case "header":
		parts[0] = vhauFlip(parts[0])
	case "payload":
		parts[1] = vhauFlip(parts[1])
	case "signature":
		parts[2] = vhauFlip(parts[2])
	case "claims":
		// the realistic forgery: keep header and signature, widen the claims
		claims["exp"] = now.Unix() + 86400
		delete(claims, "nbf")
		delete(claims, "piko")
		b, _ := json.Marshal(claims)
		parts[1] = vhauB64(b)
	default:
		return "", nil, fmt.Errorf("unknown tamper %q", ts.Tamper)
	}
	return strings.Join(parts, "."), times, nil
}

// ---------------------------------------------------------------- stubs
type vhauManager struct {
	mu      sync.Mutex
	selects []string
	adds    []string
	removes int
	addCh   chan struct{}
	remCh   chan struct{}
}

func vhauNewManager() *vhauManager {
	return &vhauManager{addCh: make(chan struct{}, 64), remCh: make(chan struct{}, 64)}
}

func (m *vhauManager) Select(endpointID string, allowForward bool) (upstream.Upstream, bool) {
	m.mu.Lock()
	m.selects = append(m.selects, endpointID)
	m.mu.Unlock()
	return nil, false
}

func (m *vhauManager) AddConn(u upstream.Upstream) {
	m.mu.Lock()
	m.adds = append(m.adds, u.EndpointID())
	m.mu.Unlock()
	select {
	case m.addCh <- struct{}{}:
	default:
	}
}

func (m *vhauManager) RemoveConn(u upstream.Upstream) {
	m.mu.Lock()
	m.removes++
	m.mu.Unlock()
	select {
	case m.remCh <- struct{}{}:
	default:
	}
}

func (m *vhauManager) reset() {
	m.mu.Lock()
	m.selects, m.adds, m.removes = nil, nil, 0
	m.mu.Unlock()
	for {
		select {
		case <-m.addCh:
		case <-m.remCh:
		default:
			return
		}
	}
}

func (m *vhauManager) snapshot() ([]string, []string) {
	m.mu.Lock()
	defer m.mu.Unlock()
	return append([]string{}, m.selects...), append([]string{}, m.adds...)
}

type vhauPeer struct {
	mu   sync.Mutex
	hits int
	ln   net.Listener
	srv  *http.Server
}

func vhauNewPeer() *vhauPeer {
	ln, err := net.Listen("tcp", "127.0.0.1:0")
	if err != nil {
		panic(err)
	}
	p := &vhauPeer{ln: ln}
	p.srv = &http.Server{Handler: http.HandlerFunc(func(w http.ResponseWriter, r *http.Request) {
		p.mu.Lock()
		p.hits++
		p.mu.Unlock()
		w.WriteHeader(200)
		_, _ = w.Write([]byte("stub-peer"))
	})}
	go func() { _ = p.srv.Serve(ln) }()
	return p
}

func (p *vhauPeer) take() int {
	p.mu.Lock()
	defer p.mu.Unlock()
	h := p.hits
	p.hits = 0
	return h
}

// ---------------------------------------------------------------- a deployment: three real servers
type vhauDeployment struct {
	addr      map[string]string
	mgr       *vhauManager // nil in wired cases
	peer      *vhauPeer
	state     *cluster.State // wired: the server's cluster state
	local     string
	shutdowns []func()
}

func (d *vhauDeployment) close() {
	for _, f := range d.shutdowns {
		f()
	}
}

const vhauLocalID = "local"
const vhauPeerID = "n2"

func (k *vhauKeys) deploy(c *vhauCase, dir string, peer *vhauPeer) (*vhauDeployment, error) {
	logger := log.NewNopLogger()
	d := &vhauDeployment{addr: map[string]string{}, mgr: vhauNewManager(), peer: peer, local: vhauLocalID}
	listen := func(name string) (net.Listener, error) {
		ln, err := net.Listen("tcp", "127.0.0.1:0")
		if err != nil {
			return nil, err
		}
		d.addr[name] = ln.Addr().String()
		return ln, nil
	}
	ctx := func() (context.Context, func()) { return context.WithTimeout(context.Background(), 3*time.Second) }

	state := cluster.NewState(&cluster.Node{ID: vhauLocalID, ProxyAddr: "127.0.0.1:1", AdminAddr: "127.0.0.1:1"}, logger)
	state.AddNode(&cluster.Node{ID: vhauPeerID, Status: cluster.NodeStatusActive, ProxyAddr: "127.0.0.1:1", AdminAddr: peer.ln.Addr().String()})

	// proxy port: server.NewServer passes MultiTenantVerifier(default, nil)
	pv, err := k.verifier(c.Proxy.Verifier, dir, "p")
	if err != nil {
		return nil, err
	}
	var reg *prometheus.Registry
	if c.Proxy.Registry {
		reg = prometheus.NewRegistry()
	}
	ps := proxy.NewServer(d.mgr, config.Default().Proxy, reg, pv, nil, logger)
	pln, err := listen("proxy")
	if err != nil {
		return nil, err
	}
	go func() { _ = ps.Serve(pln) }()
	d.shutdowns = append(d.shutdowns, func() { cx, cancel := ctx(); defer cancel(); _ = ps.Shutdown(cx) })

	// upstream port
	uv, err := k.verifier(c.Upstream.Verifier, dir, "u")
	if err != nil {
		return nil, err
	}
	us := upstream.NewServer(d.mgr, uv, nil, state, config.Default().Upstream, logger)
	uln, err := listen("upstream")
	if err != nil {
		return nil, err
	}
	go func() { _ = us.Serve(uln) }()
	d.shutdowns = append(d.shutdowns, func() { cx, cancel := ctx(); defer cancel(); _ = us.Shutdown(cx) })

	// admin port + the status routes exactly as server.NewServer / Server.Start add them
	av, err := k.verifier(c.Admin.Verifier, dir, "a")
	if err != nil {
		return nil, err
	}
	var areg *prometheus.Registry
	if c.Admin.Registry {
		areg = prometheus.NewRegistry()
	}
	var astate *cluster.State
	if c.Admin.Cluster {
		astate = state
	}
	as := admin.NewServer(astate, areg, av, nil, logger)
	as.AddStatus("/upstream", upstream.NewStatus(upstream.NewLoadBalancedManager(state, nil)))
	as.AddStatus("/cluster", cluster.NewStatus(state))
	as.AddStatus("/gossip", gossip.NewStatus(nil))
	aln, err := listen("admin")
	if err != nil {
		return nil, err
	}
	go func() { _ = as.Serve(aln) }()
	d.shutdowns = append(d.shutdowns, func() { cx, cancel := ctx(); defer cancel(); _ = as.Shutdown(cx) })
	return d, nil
}

// deployWired: the production wiring, server.NewServer(conf) -> conf.X.Auth.Load -> NewJWTVerifier ->
// NewMultiTenantVerifier -> X.NewServer, without starting gossip
func (k *vhauKeys) deployWired(c *vhauCase, dir string, peer *vhauPeer) (*vhauDeployment, error) {
	conf := config.Default()
	conf.Cluster.NodeID = vhauLocalID
	conf.Proxy.BindAddr = "127.0.0.1:0"
	conf.Upstream.BindAddr = "127.0.0.1:0"
	conf.Admin.BindAddr = "127.0.0.1:0"
	conf.Cluster.Gossip.BindAddr = "127.0.0.1:0"
	var err error
	if c.Proxy.Verifier != nil {
		if conf.Proxy.Auth, err = k.authConfig(c.Proxy.Verifier.Default, dir, "wp"); err != nil {
			return nil, err
		}
	}
	if c.Upstream.Verifier != nil {
		if conf.Upstream.Auth, err = k.authConfig(c.Upstream.Verifier.Default, dir, "wu"); err != nil {
			return nil, err
		}
		for i, t := range c.Upstream.Verifier.Tenants {
			ac, err := k.authConfig(t.Cfg, dir, fmt.Sprintf("wu-t%d", i))
			if err != nil {
				return nil, err
			}
			conf.Upstream.Tenants = append(conf.Upstream.Tenants, config.TenantConfig{ID: t.ID, Auth: ac})
		}
	}
	if c.Admin.Verifier != nil {
		if conf.Admin.Auth, err = k.authConfig(c.Admin.Verifier.Default, dir, "wa"); err != nil {
			return nil, err
		}
	}
	if err := conf.Validate(); err != nil {
		return nil, fmt.Errorf("config: %w", err)
	}
	s, err := NewServer(conf, log.NewNopLogger())
	if err != nil {
		return nil, err
	}
	d := &vhauDeployment{addr: map[string]string{}, peer: peer, state: s.clusterState, local: vhauLocalID}
	s.clusterState.AddNode(&cluster.Node{ID: vhauPeerID, Status: cluster.NodeStatusActive, ProxyAddr: "127.0.0.1:1", AdminAddr: peer.ln.Addr().String()})
	d.addr["proxy"] = s.proxyLn.Addr().String()
	d.addr["upstream"] = s.upstreamLn.Addr().String()
	d.addr["admin"] = s.adminLn.Addr().String()
	go func() { _ = s.proxyServer.Serve(s.proxyLn) }()
	go func() { _ = s.upstreamServer.Serve(s.upstreamLn) }()
	go func() { _ = s.adminServer.Serve(s.adminLn) }()
	d.shutdowns = append(d.shutdowns, func() {
		cx, cancel := context.WithTimeout(context.Background(), 3*time.Second)
		defer cancel()
		s.stopJWKSRefresher()
		s.rebalanceCancel()
		_ = s.upstreamServer.Shutdown(cx)
		_ = s.proxyServer.Shutdown(cx)
		_ = s.adminServer.Shutdown(cx)
	})
	return d, nil
}

// ---------------------------------------------------------------- one request
func (k *vhauKeys) header(h *vhauHdr, now time.Time) (string, string, *vhauTimes, error) {
	if h == nil {
		return "", "", nil, nil
	}
	if h.Tok == nil {
		return h.Prefix + h.Suffix, h.Prefix + h.Suffix, nil, nil
	}
	s, times, err := k.mint(h.Tok, now)
	if err != nil {
		return "", "", nil, err
	}
	return h.Prefix + s + h.Suffix, h.Prefix + "@" + h.Suffix, times, nil
}

func vhauErrOf(body []byte) string {
	var m map[string]any
	if json.Unmarshal(body, &m) == nil {
		if e, ok := m["error"].(string); ok {
			return e
		}
	}
	return ""
}

func (d *vhauDeployment) localEndpoints() []string {
	var out []string
	for e, n := range d.state.LocalNode().Endpoints {
		if n > 0 {
			out = append(out, e)
		}
	}
	sort.Strings(out)
	return out
}

func (k *vhauKeys) doStep(d *vhauDeployment, client *http.Client, st *vhauStep) (ob vhauObs) {
	defer func() {
		if r := recover(); r != nil {
			ob.Fail = fmt.Sprintf("harness panic: %v", r)
		}
	}()
	if d.mgr != nil {
		d.mgr.reset()
	}
	d.peer.take()
	now := time.Now()
	defer func() { ob.DurUs = time.Since(now).Microseconds() }()
	xa, xaShown, xt, err := k.header(st.XAuth, now)
	if err != nil {
		ob.Fail = "mint: " + err.Error()
		return
	}
	au, auShown, at, err := k.header(st.Auth, now)
	if err != nil {
		ob.Fail = "mint: " + err.Error()
		return
	}
	ob.XAuthHdr, ob.AuthHdr, ob.XAuthT, ob.AuthT = xaShown, auShown, xt, at
	hdr := http.Header{}
	if st.XAuth != nil {
		hdr["X-Piko-Authorization"] = []string{xa}
	}
	if st.Auth != nil {
		hdr["Authorization"] = []string{au}
	}
	if st.XEndpoint != "" {
		hdr["X-Piko-Endpoint"] = []string{st.XEndpoint}
	}
	if st.Tenant != "" {
		hdr["X-Piko-Tenant-Id"] = []string{st.Tenant}
	}
	target := d.addr[st.Port] + st.Path
	if st.Query != "" {
		target += "?" + st.Query
	}
	ob.NowNs = time.Now().UnixNano()
	ob.Select, ob.AddConn = []string{}, []string{}

	if st.Port == "upstream" && st.Method == "GET" {
		// a websocket client, as an upstream agent would connect
		if st.Host != "" {
			hdr["Host"] = []string{st.Host}
		}
		dialer := websocket.Dialer{HandshakeTimeout: 8 * time.Second}
		conn, resp, err := dialer.Dial("ws://"+target, hdr)
		if resp != nil {
			ob.Status = resp.StatusCode
			ob.Location = resp.Header.Get("Location")
			if resp.Body != nil {
				b, _ := io.ReadAll(io.LimitReader(resp.Body, 1<<16))
				ob.Err = vhauErrOf(b)
			}
		}
		if err != nil && resp == nil {
			ob.Fail = "ws dial: " + err.Error()
			return
		}
		if conn != nil {
			if d.mgr != nil {
				select {
				case <-d.mgr.addCh:
				case <-time.After(15 * time.Second):
					ob.Fail = "AddConn not observed after a successful upgrade"
				}
				_, ob.AddConn = d.mgr.snapshot()
				_ = conn.Close()
				select {
				case <-d.mgr.remCh:
				case <-time.After(15 * time.Second):
					ob.Fail = "RemoveConn not observed after close"
				}
			} else {
				// wired: the real manager advertises the endpoint in the local node's state
				deadline := time.Now().Add(15 * time.Second)
				for time.Now().Before(deadline) {
					if eps := d.localEndpoints(); len(eps) > 0 {
						ob.AddConn = eps
						break
					}
					time.Sleep(2 * time.Millisecond)
				}
				_ = conn.Close()
				for time.Now().Before(deadline) && len(d.localEndpoints()) > 0 {
					time.Sleep(2 * time.Millisecond)
				}
				if len(d.localEndpoints()) > 0 {
					ob.Fail = "endpoint still registered after close"
				}
			}
		}
		if d.mgr != nil {
			sel, add := d.mgr.snapshot()
			ob.Select = sel
			if len(ob.AddConn) == 0 {
				ob.AddConn = add
			}
		}
		ob.Forward = d.peer.take()
		return
	}

	req, err := http.NewRequest(st.Method, "http://"+target, nil)
	if err != nil {
		ob.Fail = "request: " + err.Error()
		return
	}
	req.Header = hdr
	if st.Host != "" {
		req.Host = st.Host
	}
	resp, err := client.Do(req)
	if err != nil {
		ob.Fail = "do: " + err.Error()
		return
	}
	b, _ := io.ReadAll(io.LimitReader(resp.Body, 1<<16))
	_ = resp.Body.Close()
	if st.ReuseMs > 0 && k.reuse != nil {
		k.reuseWG.Add(1)
		stepIdx := k.reuseStep
		go func(hdr http.Header, host string) {
			defer k.reuseWG.Done()
			time.Sleep(time.Duration(st.ReuseMs) * time.Millisecond)
			r := vhauReuse{Step: stepIdx}
			req2, err := http.NewRequest(st.Method, "http://"+target, nil)
			if err == nil {
				req2.Header = hdr
				if host != "" {
					req2.Host = host
				}
				r.NowNs = time.Now().UnixNano()
				resp2, err2 := client.Do(req2)
				if err2 != nil {
					r.Fail = err2.Error()
				} else {
					_, _ = io.Copy(io.Discard, io.LimitReader(resp2.Body, 1<<16))
					_ = resp2.Body.Close()
					r.Status = resp2.StatusCode
				}
			} else {
				r.Fail = err.Error()
			}
			k.reuseMu.Lock()
			*k.reuse = append(*k.reuse, r)
			k.reuseMu.Unlock()
		}(hdr.Clone(), st.Host)
	}
	ob.Status = resp.StatusCode
	ob.Err = vhauErrOf(b)
	ob.Location = resp.Header.Get("Location")
	if d.mgr != nil {
		ob.Select, ob.AddConn = d.mgr.snapshot()
	}
	ob.Forward = d.peer.take()
	return
}

func (k *vhauKeys) runCase(c *vhauCase, dir string, peer *vhauPeer) (out vhauCaseOut) {
	out.ID = c.ID
	out.Local = vhauLocalID
	defer func() {
		if r := recover(); r != nil {
			out.Panic = fmt.Sprintf("panic: %v", r)
		}
	}()
	var d *vhauDeployment
	var err error
	t0 := time.Now()
	if c.Wired {
		d, err = k.deployWired(c, dir, peer)
	} else {
		d, err = k.deploy(c, dir, peer)
	}
	if err != nil {
		out.Panic = "deploy: " + err.Error()
		return
	}
	out.DeployUs = time.Since(t0).Microseconds()
	defer func() { t1 := time.Now(); d.close(); out.CloseUs = time.Since(t1).Microseconds() }()
	client := &http.Client{
		Transport:     &http.Transport{DisableKeepAlives: true},
		CheckRedirect: func(*http.Request, []*http.Request) error { return http.ErrUseLastResponse },
		Timeout:       20 * time.Second,
	}
	out.Reuse = []vhauReuse{}
	k.reuse = &out.Reuse
	defer func() { k.reuseWG.Wait(); k.reuse = nil }()
	for i := range c.Steps {
		done := make(chan vhauObs, 1)
		k.reuseStep = i
		go func(st *vhauStep) { done <- k.doStep(d, client, st) }(&c.Steps[i])
		select {
		case ob := <-done:
			out.Obs = append(out.Obs, ob)
		case <-time.After(40 * time.Second):
			out.Obs = append(out.Obs, vhauObs{Fail: "watchdog: request did not finish in 40s"})
			out.Panic = fmt.Sprintf("watchdog at step %d", i)
			return
		}
	}
	return
}

func TestVerifHarness_Auth(t *testing.T) {
	in := os.Getenv("VERIF_IN")
	if in == "" {
		t.Skip("VERIF_IN not set")
	}
	raw, err := os.ReadFile(in)
	if err != nil {
		t.Fatal(err)
	}
	var input vhauInput
	if err := json.Unmarshal(raw, &input); err != nil {
		t.Fatal(err)
	}
	keys := vhauNewKeys()
	peer := vhauNewPeer()
	dir := t.TempDir()
	var output vhauOutput
	for i := range input.Cases {
		output.Cases = append(output.Cases, keys.runCase(&input.Cases[i], dir, peer))
	}
	b, err := json.Marshal(output)
	if err != nil {
		t.Fatal(err)
	}
	if err := os.WriteFile(os.Getenv("VERIF_OUT"), b, 0o644); err != nil {
		t.Fatal(err)
	}
}
