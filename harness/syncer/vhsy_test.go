//go:build verif

// Verification harness for server/gossip: the REAL syncer + cluster.State stacked on the REAL gossip
// clusterState of every node of a simulated cluster (world machinery of harness/gossip/world.go).
package gossip

import (
	"reflect"
	"unsafe"
	"encoding/hex"
	"encoding/json"
	"fmt"
	"os"
	"sort"
	"sync"
	"testing"

	pkggossip "github.com/andydunstall/piko/pkg/gossip"
	"github.com/andydunstall/piko/pkg/log"
	"github.com/andydunstall/piko/server/cluster"
)

type vhsyNode struct {
	ID        string         `json:"id"`
	Status    string         `json:"status"`
	ProxyAddr string         `json:"proxy"`
	AdminAddr string         `json:"admin"`
	Endpoints map[string]int `json:"endpoints"`
}

type vhsyDump struct {
	Nodes   []vhsyNode        `json:"nodes"`
	Pending []vhsyNode        `json:"pending"`
	Lookup  map[string]string `json:"lookup"`
}

func vhsyHex(s string) string { return hex.EncodeToString([]byte(s)) }
func vhsyUnhex(s string) string {
	b, err := hex.DecodeString(s)
	if err != nil {
		panic(err)
	}
	return string(b)
}

func vhsyNodeOf(n *cluster.Node) vhsyNode {
	eps := map[string]int{}
	for k, v := range n.Endpoints {
		eps[vhsyHex(k)] = v
	}
	return vhsyNode{ID: vhsyHex(n.ID), Status: string(n.Status), ProxyAddr: vhsyHex(n.ProxyAddr), AdminAddr: vhsyHex(n.AdminAddr), Endpoints: eps}
}

type vhsyCase struct {
	pkggossip.VhCase
	Lookups []string `json:"lookups"`
}

func vhsyRun(c vhsyCase) pkggossip.VhCaseOut {
	n := len(c.Nodes)
	states := make([]*cluster.State, n)
	syncers := make([]*syncer, n)
	gossipers := make([]pkggossip.VhGossiper, n)
	hooks := &pkggossip.VhHooks{
		Watcher: func(idx int, id, addr string) pkggossip.Watcher {
			states[idx] = cluster.NewState(&cluster.Node{
				ID:        id,
				ProxyAddr: fmt.Sprintf("10.1.0.%d:8000", idx+1),
				AdminAddr: fmt.Sprintf("10.1.0.%d:8001", idx+1),
			}, log.NewNopLogger())
			syncers[idx] = newSyncer(states[idx], log.NewNopLogger())
			return syncers[idx]
		},
		Ready: func(idx int, g pkggossip.VhGossiper) { gossipers[idx] = g },
		ExtraOp: func(op pkggossip.VhOp, idx int) bool {
			switch op.Op {
			case "sync":
				syncers[idx].Sync(gossipers[idx])
			case "addep":
				states[idx].AddLocalEndpoint(vhsyUnhex(op.E))
			case "rmep":
				states[idx].RemoveLocalEndpoint(vhsyUnhex(op.E))
			default:
				return false
			}
			return true
		},
		Extra: func(idx int) any {
			d := vhsyDump{Nodes: []vhsyNode{}, Pending: []vhsyNode{}, Lookup: map[string]string{}}
			for _, nd := range states[idx].Nodes() {
				d.Nodes = append(d.Nodes, vhsyNodeOf(nd))
			}
			sort.Slice(d.Nodes, func(i, j int) bool { return d.Nodes[i].ID < d.Nodes[j].ID })
			syncers[idx].mu.Lock()
			// read through reflection so that the probe does not depend on HOW the syncer stores its pending nodes
			// (map of pointers or of values): a refactoring of that detail must be judged by its behaviour
			if f := reflect.ValueOf(syncers[idx]).Elem().FieldByName("pendingNodes"); f.IsValid() && f.Kind() == reflect.Map {
				f = reflect.NewAt(f.Type(), unsafe.Pointer(f.UnsafeAddr())).Elem()
				it := f.MapRange()
				for it.Next() {
					v := it.Value()
					switch nd := v.Interface().(type) {
					case *cluster.Node:
						d.Pending = append(d.Pending, vhsyNodeOf(nd))
					case cluster.Node:
						cp := nd
						d.Pending = append(d.Pending, vhsyNodeOf(&cp))
					}
				}
			}
			syncers[idx].mu.Unlock()
			sort.Slice(d.Pending, func(i, j int) bool { return d.Pending[i].ID < d.Pending[j].ID })
			for _, e := range c.Lookups {
				if nd, ok := states[idx].LookupEndpoint(vhsyUnhex(e)); ok {
					d.Lookup[e] = vhsyHex(nd.ID)
				} else {
					d.Lookup[e] = ""
				}
			}
			return d
		},
	}
	return pkggossip.VhRunCase(c.VhCase, hooks)
}

func TestVerifHarness_Syncer(t *testing.T) {
	inPath, outPath := os.Getenv("VERIF_IN"), os.Getenv("VERIF_OUT")
	if inPath == "" {
		t.Skip("VERIF_IN not set")
	}
	raw, err := os.ReadFile(inPath)
	if err != nil {
		t.Fatal(err)
	}
	var in struct {
		Cases []vhsyCase `json:"cases"`
	}
	if err := json.Unmarshal(raw, &in); err != nil {
		t.Fatal(err)
	}
	res := make([]pkggossip.VhCaseOut, len(in.Cases))
	var wg sync.WaitGroup
	sem := make(chan struct{}, 8)
	for i := range in.Cases {
		wg.Add(1)
		sem <- struct{}{}
		go func(i int) {
			defer wg.Done()
			defer func() { <-sem }()
			res[i] = vhsyRun(in.Cases[i])
		}(i)
	}
	wg.Wait()
	b, err := json.Marshal(map[string]any{"cases": res})
	if err != nil {
		t.Fatal(err)
	}
	if err := os.WriteFile(outPath, b, 0o644); err != nil {
		t.Fatal(err)
	}
}
