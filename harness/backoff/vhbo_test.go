//go:build verif

package backoff

// Verification harness (C18, reconnection): drives the REAL Backoff with scripted configurations and records every
// (wait, ok) it hands out. Injected with `go test -overlay`; never part of /repo.

import (
	"encoding/json"
	"fmt"
	"os"
	"testing"
	"time"
)

type vhboCase struct {
	ID      string `json:"id"`
	Retries int    `json:"retries"`
	Min     int64  `json:"min"`
	Max     int64  `json:"max"`
	Calls   int    `json:"calls"`
}

type vhboOut struct {
	ID    string  `json:"id"`
	Waits []int64 `json:"waits"`
	Oks   []bool  `json:"oks"`
	Panic string  `json:"panic"`
}

func vhboRun(c vhboCase) (out vhboOut) {
	out.ID = c.ID
	defer func() {
		if r := recover(); r != nil {
			out.Panic = fmt.Sprint(r)
		}
	}()
	b := New(c.Retries, time.Duration(c.Min), time.Duration(c.Max))
	for i := 0; i < c.Calls; i++ {
		w, ok := b.Backoff()
		out.Waits = append(out.Waits, int64(w))
		out.Oks = append(out.Oks, ok)
	}
	return out
}

func TestVerifHarness_Backoff(t *testing.T) {
	in := os.Getenv("VERIF_IN")
	if in == "" {
		t.Skip("VERIF_IN not set")
	}
	raw, err := os.ReadFile(in)
	if err != nil {
		t.Fatal(err)
	}
	var cases []vhboCase
	if err := json.Unmarshal(raw, &cases); err != nil {
		t.Fatal(err)
	}
	outs := make([]vhboOut, 0, len(cases))
	for _, c := range cases {
		outs = append(outs, vhboRun(c))
	}
	b, _ := json.Marshal(outs)
	if err := os.WriteFile(os.Getenv("VERIF_OUT"), b, 0o644); err != nil {
		t.Fatal(err)
	}
}
