//go:build verif

// Verification harness for property C19 (rebalancing). Injected into package upstream with
// `go test -overlay` (never copied into /repo). For every generated configuration it builds a REAL
// cluster.State (local node + remote nodes with statuses and endpoint counts), a REAL upstream.Server
// (NewServer) with the generated RebalanceConfig, registers real yamux server sessions over net.Pipe
// pairs with s.addSession exactly like upstreamRoute does, calls s.Rebalance() ONCE and reports how
// many sessions were closed by that call (sess.IsClosed()), plus openSessions()/AvgConns()/len(Nodes()).
package upstream

import (
	"encoding/json"
	"fmt"
	"io"
	"math"
	"net"
	"os"
	"sync"
	"testing"
	"time"

	"github.com/andydunstall/yamux"

	"github.com/andydunstall/piko/pkg/log"
	"github.com/andydunstall/piko/server/cluster"
	"github.com/andydunstall/piko/server/config"
)

type vhrbRemote struct {
	Status    string `json:"status"`    // active | unreachable | left | (anything)
	Endpoints []int  `json:"endpoints"` // listener count per endpoint
	// how the status is installed: "add" = AddNode with that status, "update" = AddNode as active then
	// UpdateRemoteStatus, "endpoint" = endpoints installed one by one with UpdateRemoteEndpoint
	Via string `json:"via"`
}

type vhrbCase struct {
	ID       string       `json:"id"`
	Thr      uint64       `json:"thr"`  // math.Float64bits of Threshold
	Rate     uint64       `json:"rate"` // math.Float64bits of ShedRate
	MinConns uint64       `json:"min_conns"`
	Open     int          `json:"open"`  // sessions registered on the upstream server
	Local    []int        `json:"local"` // local endpoint counts in the cluster state (AddLocalEndpoint calls)
	Remotes  []vhrbRemote `json:"remotes"`
}

type vhrbObs struct {
	ID     string `json:"id"`
	Open   int    `json:"open"`   // s.openSessions() before the call
	Avg    int    `json:"avg"`    // s.cluster.AvgConns() before the call
	Nodes  int    `json:"nodes"`  // len(s.cluster.Nodes())
	Closed int    `json:"closed"` // sessions closed by ONE s.Rebalance()
	Left   int    `json:"left"`   // sessions still open afterwards
	Panic  string `json:"panic,omitempty"`
}

type vhrbInput struct {
	Cases []vhrbCase `json:"cases"`
}

type vhrbPlatform struct {
	IntPosInf int64  `json:"int_pos_inf"`
	IntNegInf int64  `json:"int_neg_inf"`
	IntNaN    int64  `json:"int_nan"`
	IntHuge   int64  `json:"int_huge"`
	IntNHuge  int64  `json:"int_nhuge"`
	Int2p63   int64  `json:"int_2p63"`
	IntSize   int    `json:"int_size"`
	GoArch    string `json:"goarch"`
}

type vhrbOutput struct {
	Cases    []vhrbObs    `json:"cases"`
	Platform vhrbPlatform `json:"platform"`
}

//go:noinline
func vhrbToInt(f float64) int { return int(f) }

func vhrbRunCase(c vhrbCase) (obs vhrbObs) {
	obs.ID = c.ID
	var pipes []net.Conn
	var sessions []*yamux.Session
	defer func() {
		if r := recover(); r != nil {
			obs.Panic = fmt.Sprintf("panic: %v", r)
		}
		for _, sess := range sessions {
			sess.Close()
		}
		for _, p := range pipes {
			p.Close()
		}
	}()

	logger := log.NewNopLogger()
	st := cluster.NewState(&cluster.Node{ID: "local", ProxyAddr: "10.0.0.1:8000", AdminAddr: "10.0.0.1:8002"}, logger)
	for i, n := range c.Local {
		for j := 0; j < n; j++ {
			st.AddLocalEndpoint(fmt.Sprintf("e%d", i))
		}
	}
	for i, r := range c.Remotes {
		id := fmt.Sprintf("n%d", i)
		eps := map[string]int{}
		for j, n := range r.Endpoints {
			eps[fmt.Sprintf("e%d", j)] = n
		}
		node := &cluster.Node{ID: id, ProxyAddr: "10.0.1.1:8000", AdminAddr: "10.0.1.1:8002"}
		switch r.Via {
		case "update":
			node.Status = cluster.NodeStatusActive
			node.Endpoints = eps
			st.AddNode(node)
			st.UpdateRemoteStatus(id, cluster.NodeStatus(r.Status))
		case "endpoint":
			node.Status = cluster.NodeStatus(r.Status)
			st.AddNode(node)
			for k, v := range eps {
				st.UpdateRemoteEndpoint(id, k, v)
			}
		default:
			node.Status = cluster.NodeStatus(r.Status)
			node.Endpoints = eps
			st.AddNode(node)
		}
	}

	conf := config.UpstreamConfig{}
	conf.Rebalance = config.RebalanceConfig{
		Threshold: math.Float64frombits(c.Thr),
		ShedRate:  math.Float64frombits(c.Rate),
		MinConns:  uint(c.MinConns),
	}
	s := NewServer(nil, nil, nil, st, conf, logger)

	for i := 0; i < c.Open; i++ {
		a, b := net.Pipe()
		pipes = append(pipes, a, b)
		// as upstreamRoute (server.go:223-233)
		muxConfig := yamux.DefaultConfig()
		muxConfig.LogOutput = io.Discard
		sess, err := yamux.Server(a, muxConfig)
		if err != nil {
			panic("yamux server: " + err.Error())
		}
		sessions = append(sessions, sess)
		s.addSession(sess)
	}

	obs.Open = s.openSessions()
	obs.Avg = s.cluster.AvgConns()
	obs.Nodes = len(s.cluster.Nodes())

	s.Rebalance()

	for _, sess := range sessions {
		if sess.IsClosed() {
			obs.Closed++
		} else {
			obs.Left++
		}
	}
	return obs
}

func vhrbGuarded(c vhrbCase) vhrbObs {
	ch := make(chan vhrbObs, 1)
	go func() { ch <- vhrbRunCase(c) }()
	select {
	case o := <-ch:
		return o
	case <-time.After(60 * time.Second):
		return vhrbObs{ID: c.ID, Panic: "timeout: case did not finish in 60s"}
	}
}

func TestVerifHarness_Rebalance(t *testing.T) {
	inPath := os.Getenv("VERIF_IN")
	if inPath == "" {
		t.Skip("VERIF_IN not set")
	}
	raw, err := os.ReadFile(inPath)
	if err != nil {
		t.Fatal(err)
	}
	var in vhrbInput
	if err := json.Unmarshal(raw, &in); err != nil {
		t.Fatal(err)
	}
	out := vhrbOutput{Cases: make([]vhrbObs, len(in.Cases))}

	var wg sync.WaitGroup
	idx := make(chan int)
	for w := 0; w < 8; w++ {
		wg.Add(1)
		go func() {
			defer wg.Done()
			for i := range idx {
				out.Cases[i] = vhrbGuarded(in.Cases[i])
			}
		}()
	}
	for i := range in.Cases {
		idx <- i
	}
	close(idx)
	wg.Wait()

	// what int(f) does on this machine when f does not fit (implementation-defined in Go)
	inf := math.Inf(1)
	out.Platform = vhrbPlatform{
		IntPosInf: int64(vhrbToInt(inf)),
		IntNegInf: int64(vhrbToInt(-inf)),
		IntNaN:    int64(vhrbToInt(math.NaN())),
		IntHuge:   int64(vhrbToInt(math.Float64frombits(0x7e37e43c8800759c))),  // 1e300
		IntNHuge:  int64(vhrbToInt(-math.Float64frombits(0x7e37e43c8800759c))), // -1e300
		Int2p63:   int64(vhrbToInt(math.Float64frombits(0x43e0000000000000))),  // 2^63
		IntSize:   32 << (^uint(0) >> 63),
		GoArch:    vhrbGoArch(),
	}

	enc, err := json.Marshal(out)
	if err != nil {
		t.Fatal(err)
	}
	if err := os.WriteFile(os.Getenv("VERIF_OUT"), enc, 0o644); err != nil {
		t.Fatal(err)
	}
}
