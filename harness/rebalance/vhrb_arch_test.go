//go:build verif

package upstream

import "runtime"

func vhrbGoArch() string { return runtime.GOARCH }
