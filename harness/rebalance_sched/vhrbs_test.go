//go:build verif

// Verification harness for property C19, scheduling part (server/server.go:418-431, 522-535): the rebalance loop
// is started only when `Upstream.Rebalance.Threshold != 0` and calls upstreamServer.Rebalance() once a second.
// Injected into package server with `go test -overlay` (never copied into /repo).
//
// For every case: a REAL server.Server value (struct literal: only the fields startUpstreamServer / runGoroutine /
// upstreamRebalance / shutdownUpstreamServer use) with a real cluster.State, a real LoadBalancedManager, a real
// upstream.Server serving on a loopback listener. `open` REAL upstream connections are made the way an agent makes
// them (websocket to /piko/v1/upstream/<endpoint>, yamux client on top). s.startUpstreamServer() is the code under
// test. Observable: how many of the client sessions the server closed within the observation window.
package server

import (
	"context"
	"encoding/json"
	"fmt"
	"io"
	"math"
	"net"
	"os"
	"sync"
	"testing"
	"time"

	"github.com/andydunstall/yamux"
	"github.com/gorilla/websocket"
	"go.uber.org/atomic"

	"github.com/andydunstall/piko/pkg/log"
	pikowebsocket "github.com/andydunstall/piko/pkg/websocket"
	"github.com/andydunstall/piko/server/cluster"
	"github.com/andydunstall/piko/server/config"
	"github.com/spf13/pflag"
	"github.com/andydunstall/piko/server/upstream"
)

type vhrbsRemote struct {
	Status    string `json:"status"`
	Endpoints []int  `json:"endpoints"`
}

type vhrbsCase struct {
	ID       string        `json:"id"`
	Thr      uint64        `json:"thr"`
	Rate     uint64        `json:"rate"`
	MinConns uint64        `json:"min_conns"`
	Open     int           `json:"open"` // real upstream connections, all on endpoint "ep"
	Remotes  []vhrbsRemote `json:"remotes"`
	WindowMs int           `json:"window_ms"` // observe at least this long when nothing is closed
	MaxMs    int           `json:"max_ms"`    // stop at the first close, at the latest after this long
}

type vhrbsObs struct {
	ID        string `json:"id"`
	Open      int    `json:"open"`   // upstream connections registered (cluster local count) before observing
	Avg       int    `json:"avg"`    // cluster.AvgConns() before observing
	Nodes     int    `json:"nodes"`  // len(cluster.Nodes())
	Closed    int    `json:"closed"` // client sessions closed by the server when observation stopped
	ElapsedMs int64  `json:"elapsed_ms"`
	Early     bool   `json:"early,omitempty"` // sessions were closed before the initial state could be read
	Panic     string `json:"panic,omitempty"`
}

func vhrbsRunCase(c vhrbsCase) (obs vhrbsObs) {
	obs.ID = c.ID
	var sessions []*yamux.Session
	var cleanup []func()
	defer func() {
		if r := recover(); r != nil {
			obs.Panic = fmt.Sprintf("panic: %v", r)
		}
		for _, sess := range sessions {
			sess.Close()
		}
		for i := len(cleanup) - 1; i >= 0; i-- {
			cleanup[i]()
		}
	}()

	logger := log.NewNopLogger()
	st := cluster.NewState(&cluster.Node{ID: "local", ProxyAddr: "127.0.0.1:1", AdminAddr: "127.0.0.1:2"}, logger)
	for i, r := range c.Remotes {
		eps := map[string]int{}
		for j, n := range r.Endpoints {
			eps[fmt.Sprintf("r%d", j)] = n
		}
		st.AddNode(&cluster.Node{ID: fmt.Sprintf("n%d", i), Status: cluster.NodeStatus(r.Status), Endpoints: eps,
			ProxyAddr: "127.0.0.1:3", AdminAddr: "127.0.0.1:4"})
	}

	conf := &config.Config{}
	conf.Upstream.Rebalance = config.RebalanceConfig{
		Threshold: math.Float64frombits(c.Thr),
		ShedRate:  math.Float64frombits(c.Rate),
		MinConns:  uint(c.MinConns),
	}

	ln, err := net.Listen("tcp", "127.0.0.1:0")
	if err != nil {
		panic("listen: " + err.Error())
	}
	upstreams := upstream.NewLoadBalancedManager(st, nil)
	rebalanceCtx, rebalanceCancel := context.WithCancel(context.Background())
	s := &Server{
		clusterState:    st,
		upstreamLn:      ln,
		upstreamServer:  upstream.NewServer(upstreams, nil, nil, st, conf.Upstream, logger),
		rebalanceCtx:    rebalanceCtx,
		rebalanceCancel: rebalanceCancel,
		conf:            conf,
		fatalCh:         make(chan struct{}),
		shutdown:        atomic.NewBool(false),
		logger:          logger,
	}

	// upstream connections are dialled concurrently BEFORE the server starts serving (the TCP connections wait in the
	// listener backlog), so that all of them are registered within milliseconds of the start of the rebalance loop,
	// far from its first tick one second later
	url := "ws://" + ln.Addr().String() + "/piko/v1/upstream/ep"
	type dialed struct {
		sess *yamux.Session
		err  error
	}
	dialCh := make(chan dialed, c.Open)
	for i := 0; i < c.Open; i++ {
		go func() {
			wsConn, _, err := websocket.DefaultDialer.Dial(url, nil)
			if err != nil {
				dialCh <- dialed{nil, fmt.Errorf("dial upstream: %w", err)}
				return
			}
			muxConfig := yamux.DefaultConfig()
			muxConfig.LogOutput = io.Discard
			sess, err := yamux.Client(pikowebsocket.New(wsConn), muxConfig)
			dialCh <- dialed{sess, err}
		}()
	}

	// the code under test: serves the upstream listener and decides whether the rebalance loop runs
	s.startUpstreamServer()
	cleanup = append(cleanup, func() {
		s.shutdown.Store(true)
		ctx, cancel := context.WithTimeout(context.Background(), 5*time.Second)
		defer cancel()
		s.shutdownUpstreamServer(ctx)
		done := make(chan struct{})
		go func() { s.wg.Wait(); close(done) }()
		select {
		case <-done:
		case <-time.After(10 * time.Second):
		}
	})

	for i := 0; i < c.Open; i++ {
		select {
		case d := <-dialCh:
			if d.err != nil {
				panic(d.err.Error())
			}
			sessions = append(sessions, d.sess)
		case <-time.After(20 * time.Second):
			panic("upstream connections not established in 20s")
		}
	}

	closedNow := func() int {
		n := 0
		for _, sess := range sessions {
			if sess.IsClosed() {
				n++
			}
		}
		return n
	}
	// all connections registered (AddConn -> cluster local endpoint count)?
	deadline := time.Now().Add(15 * time.Second)
	for st.LocalEndpointListeners("ep") < c.Open {
		if k := closedNow(); k > 0 {
			// a tick of the loop fell into the connection phase (machine stalled for a second): the initial
			// state was not observed, but "the server closed sessions" was
			obs.Early = true
			obs.Open = c.Open
			obs.Nodes = len(st.Nodes())
			obs.Closed = k
			return obs
		}
		if time.Now().After(deadline) {
			panic(fmt.Sprintf("only %d of %d upstream connections registered", st.LocalEndpointListeners("ep"), c.Open))
		}
		time.Sleep(2 * time.Millisecond)
	}
	obs.Open = st.LocalEndpointListeners("ep")
	obs.Avg = st.AvgConns()
	obs.Nodes = len(st.Nodes())
	if k := closedNow(); k > 0 || obs.Open != c.Open {
		obs.Early = true
		obs.Open = c.Open
		obs.Closed = k
		return obs
	}

	start := time.Now()
	for {
		el := time.Since(start)
		k := closedNow()
		if k > 0 || el >= time.Duration(c.MaxMs)*time.Millisecond {
			obs.Closed = k
			obs.ElapsedMs = el.Milliseconds()
			return obs
		}
		time.Sleep(20 * time.Millisecond)
	}
}

func vhrbsGuarded(c vhrbsCase) vhrbsObs {
	ch := make(chan vhrbsObs, 1)
	go func() { ch <- vhrbsRunCase(c) }()
	select {
	case o := <-ch:
		return o
	case <-time.After(90 * time.Second):
		return vhrbsObs{ID: c.ID, Panic: "timeout: case did not finish in 90s"}
	}
}

func TestVerifHarness_RebalanceSched(t *testing.T) {
	inPath := os.Getenv("VERIF_IN")
	if inPath == "" {
		t.Skip("VERIF_IN not set")
	}
	raw, err := os.ReadFile(inPath)
	if err != nil {
		t.Fatal(err)
	}
	var in struct {
		Cases []vhrbsCase `json:"cases"`
	}
	if err := json.Unmarshal(raw, &in); err != nil {
		t.Fatal(err)
	}
	out := struct {
		Cases []vhrbsObs `json:"cases"`
		// the configuration `piko server` starts from when no flag is given: Default(), then RegisterFlags (pflag writes every
		// flag's default into its target), then an empty command line
		DefaultsBefore json.RawMessage `json:"defaults_before"`
		DefaultsAfter  json.RawMessage `json:"defaults_after"`
	}{Cases: make([]vhrbsObs, len(in.Cases))}
	func() {
		conf := config.Default()
		out.DefaultsBefore, _ = json.Marshal(conf)
		fs := pflag.NewFlagSet("piko", pflag.ContinueOnError)
		conf.RegisterFlags(fs)
		_ = fs.Parse(nil)
		out.DefaultsAfter, _ = json.Marshal(conf)
	}()
	var wg sync.WaitGroup
	for i := range in.Cases {
		wg.Add(1)
		go func(i int) {
			defer wg.Done()
			out.Cases[i] = vhrbsGuarded(in.Cases[i])
		}(i)
	}
	wg.Wait()
	enc, err := json.Marshal(out)
	if err != nil {
		t.Fatal(err)
	}
	if err := os.WriteFile(os.Getenv("VERIF_OUT"), enc, 0o644); err != nil {
		t.Fatal(err)
	}
}
