//go:build verif

// Verification harness for server/proxy. Injected into the package with `go test -overlay`
// (never copied into /repo). Builds small clusters of REAL proxy servers (NewServer on top of the real
// upstream.LoadBalancedManager and cluster.State) on loopback listeners, registers scripted upstreams,
// injects (possibly stale / wrong) cluster views, sends hand-written raw requests and records
// what every hop saw: handler invocations per node, what the upstream received, what the client got back.
package proxy

import (
	"bufio"
	"bytes"
	"context"
	"crypto/ecdsa"
	"crypto/elliptic"
	"crypto/rand"
	"crypto/sha256"
	"crypto/tls"
	"crypto/x509"
	"crypto/x509/pkix"
	"math/big"
	"encoding/hex"
	"encoding/json"
	"errors"
	"fmt"
	"io"
	"net"
	"net/http"
	"os"
	"sort"
	"strconv"
	"strings"
	"sync"
	"sync/atomic"
	"testing"
	"time"

	vhpxws "github.com/gorilla/websocket"

	agentconfig "github.com/andydunstall/piko/agent/config"
	"github.com/andydunstall/piko/agent/reverseproxy"
	"github.com/andydunstall/piko/pkg/auth"
	"github.com/andydunstall/piko/pkg/log"
	"github.com/golang-jwt/jwt/v5"
	"github.com/andydunstall/piko/server/cluster"
	"github.com/andydunstall/piko/server/config"
	"github.com/andydunstall/piko/server/upstream"
)

const (
	vhpxTCPMagic       = "VHPXTCP:"
	vhpxReqHeader      = "X-Vh-Req"
	vhpxWatchdog       = 120 * time.Second
	vhpxReqDeadline    = 30 * time.Second
	vhpxMaxConcurrency = 8
)

// ---------------------------------------------------------------- input

type vhpxBody struct {
	Hex  *string     `json:"hex"`
	Len  int         `json:"len"`
	Seed json.Number `json:"seed"`
}

type vhpxRespSpec struct {
	Status  int         `json:"status"`
	Headers [][2]string `json:"headers"`
	Body    *vhpxBody   `json:"body"`
	Chunked bool        `json:"chunked"`
	DelayMs int         `json:"delay_ms"`
	// CutAfter > 0: the upstream dies after the headers and that many bytes of the body (no terminating chunk / fewer
	// bytes than Content-Length announced), with a connection reset.
	CutAfter int `json:"cut_after"`
}

type vhpxReqSpec struct {
	Entry      int           `json:"entry"`
	Kind       string        `json:"kind"`
	Method     string        `json:"method"`
	Target     string        `json:"target"`
	Seg        string        `json:"seg"`
	Host       string        `json:"host"`
	Headers    [][2]string   `json:"headers"`
	Body       *vhpxBody     `json:"body"`
	ChunkedReq bool          `json:"chunked_req"`
	Resp       *vhpxRespSpec `json:"resp"`
	Payload    string        `json:"payload"`
	// HalfClose: the client shuts down its write side right after sending the request and keeps reading
	// (printf ... | nc): net/http cancels the request context while the upstream has not answered yet
	HalfClose bool `json:"half_close"`
	// kinds "connect" / "disconnect": an upstream registers with / is removed from node Entry between two requests
	Up   *vhpxUpSpec `json:"up"`
	// Burst > 1: the request is sent Burst times at the same moment (same tag); every copy's status, stamp and time is recorded
	Burst int `json:"burst"`
	// auth clusters: the bearer token of the request lists these endpoints (hex; empty list = token without endpoint claim);
	// NoToken: no token at all
	TokenEps []string `json:"token_eps"`
	NoToken  bool     `json:"no_token"`
	XAuth    bool     `json:"xauth"` // the token travels in x-piko-authorization; Authorization carries the client's own credentials for the upstream
	UpID string      `json:"up_id"`
	// kind "view": node Entry's knowledge of the listed nodes is replaced (gossip caught up)
	View []vhpxViewSpec `json:"view"`
}

type vhpxUpSpec struct {
	ID      string `json:"id"`
	Ep      string `json:"ep"`
	Beh     string `json:"beh"`
	DelayMs int    `json:"delay_ms"`
}

type vhpxViewSpec struct {
	ID     string  `json:"id"`
	Status string  `json:"status"`
	Addr   string  `json:"addr"`
	Eps    [][]any `json:"eps"`
}

type vhpxNodeSpec struct {
	ID        string         `json:"id"`
	Upstreams []vhpxUpSpec   `json:"upstreams"`
	View      []vhpxViewSpec `json:"view"`
}

// access log configuration of every node of the cluster: it must never influence what is proxied
type vhpxAccessLog struct {
	Disable   bool     `json:"disable"`
	ReqBlock  []string `json:"req_block"`
	ReqAllow  []string `json:"req_allow"`
	RespBlock []string `json:"resp_block"`
	RespAllow []string `json:"resp_allow"`
}

type vhpxClusterSpec struct {
	// ViaAgent: every upstream is a real piko agent reverse proxy (agent/reverseproxy.Server) in front of the scripted
	// service, as with `piko agent http`: client -> node(s) -> agent -> service
	ViaAgent  bool           `json:"via_agent"`
	// TLS: every node's proxy port speaks TLS with its OWN certificate (valid for its own loopback address 127.0.0.<i+2> only,
	// one CA for all); nodes reach each other with the client configuration server.NewServer hands to the manager
	TLS  bool `json:"tls"`
	Auth      bool           `json:"auth"` // the proxy ports verify HS256 tokens (secret vhpxSecret); requests carry token_eps
	AgentIdle int            `json:"agent_idle"` // the agents' http-client max-idle-conns (0 = the harness default: unlimited)
	ID        string         `json:"id"`
	TimeoutMs int            `json:"timeout_ms"`
	AccessLog *vhpxAccessLog `json:"access_log"`
	Nodes     []vhpxNodeSpec `json:"nodes"`
	Requests  []vhpxReqSpec  `json:"requests"`
}

type vhpxInput struct {
	Clusters []vhpxClusterSpec `json:"clusters"`
	Hosts    [][2]string       `json:"hosts"`
}

// ---------------------------------------------------------------- output

type vhpxRecord struct {
	Key     string      `json:"key"`
	UpID    string      `json:"up_id"`
	UpEp    string      `json:"up_ep"`
	Method  string      `json:"method"`
	URI     string      `json:"uri"`
	Host    string      `json:"host"`
	Headers [][2]string `json:"headers"`
	BodyLen int         `json:"body_len"`
	BodySha string      `json:"body_sha"`
}

type vhpxRespOut struct {
	Proto   string      `json:"proto"`
	Headers [][2]string `json:"headers"`
	BodyLen int         `json:"body_len"`
	BodySha string      `json:"body_sha"`
	Chunked bool        `json:"chunked"`
}

type vhpxReqOut struct {
	Key             string       `json:"key"`
	Err             string       `json:"err"`
	Status          int          `json:"status"`
	ElapsedMs       int64        `json:"elapsed_ms"`
	StampEp         string       `json:"stamp_ep"`
	StampUp         string       `json:"stamp_up"`
	Stamped         bool         `json:"stamped"`
	Inv             []int        `json:"inv"`
	InvUnattributed int          `json:"inv_unattributed"`
	UpReqs          []vhpxRecord `json:"up_reqs"`
	UpUnattributed  int          `json:"up_unattributed"`
	Resp            *vhpxRespOut `json:"resp"`
	EchoOK          *bool        `json:"echo_ok,omitempty"`
	BurstStatus     []int        `json:"burst_status,omitempty"`
	BurstStamped    []bool       `json:"burst_stamped,omitempty"`
	BurstMs         []int64      `json:"burst_ms,omitempty"`
	ResetHits       int          `json:"reset_hits"` // times the request was received in full by a node that reset the connection instead of answering
}

type vhpxClusterOut struct {
	ID       string       `json:"id"`
	Panic    string       `json:"panic"`
	Addrs    []string     `json:"addrs"`
	Requests []vhpxReqOut `json:"requests"`
}

// ---------------------------------------------------------------- helpers

const vhpxSecret = "vhpx-secret-key-0123456789"

func vhpxToken(eps []string) string {
	claims := jwt.MapClaims{"exp": time.Now().Add(time.Hour).Unix()}
	if len(eps) > 0 {
		l := []string{}
		for _, e := range eps {
			l = append(l, vhpxUnhex(e))
		}
		claims["piko"] = map[string]any{"endpoints": l}
	}
	tok, err := jwt.NewWithClaims(jwt.SigningMethodHS256, claims).SignedString([]byte(vhpxSecret))
	if err != nil {
		panic("vhpx: token: " + err.Error())
	}
	return tok
}

func vhpxHex(s string) string { return hex.EncodeToString([]byte(s)) }

func vhpxUnhex(s string) string {
	b, err := hex.DecodeString(s)
	if err != nil {
		panic("vhpx: bad hex: " + s)
	}
	return string(b)
}

func vhpxSha(b []byte) string {
	s := sha256.Sum256(b)
	return hex.EncodeToString(s[:])
}

// vhpxBodyBytes: {"hex": ...} literally, or {"len": N, "seed": S} =
// sha256(S ":" 0) ++ sha256(S ":" 1) ++ ... truncated to N bytes (S, counter in decimal ASCII).
func vhpxBodyBytes(b *vhpxBody) []byte {
	if b == nil {
		return nil
	}
	if b.Hex != nil {
		return []byte(vhpxUnhex(*b.Hex))
	}
	if b.Len <= 0 {
		return nil
	}
	seed := b.Seed.String()
	if seed == "" {
		seed = "0"
	}
	out := make([]byte, 0, b.Len+sha256.Size)
	for ctr := 0; len(out) < b.Len; ctr++ {
		s := sha256.Sum256([]byte(seed + ":" + strconv.Itoa(ctr)))
		out = append(out, s[:]...)
	}
	return out[:b.Len]
}

// vhpxHeaderList renders a header map as [[name, hex(value)]...] sorted by name, keeping the per-name order.
// Every element of te is added as a pseudo entry under "Transfer-Encoding".
func vhpxHeaderList(h http.Header, te []string) [][2]string {
	m := map[string][]string{}
	for k, vs := range h {
		m[k] = append(m[k], vs...)
	}
	if len(te) > 0 {
		m["Transfer-Encoding"] = append(m["Transfer-Encoding"], te...)
	}
	names := make([]string, 0, len(m))
	for k := range m {
		names = append(names, k)
	}
	sort.Strings(names)
	out := [][2]string{}
	for _, k := range names {
		for _, v := range m[k] {
			out = append(out, [2]string{k, vhpxHex(v)})
		}
	}
	return out
}

func vhpxChunked(buf *bytes.Buffer, body []byte) {
	for len(body) > 0 {
		n := len(body)
		if n > 1000 {
			n = 1000
		}
		fmt.Fprintf(buf, "%x\r\n", n)
		buf.Write(body[:n])
		buf.WriteString("\r\n")
		body = body[n:]
	}
	buf.WriteString("0\r\n\r\n")
}

func vhpxIsTimeout(err error) bool {
	var ne net.Error
	return errors.As(err, &ne) && ne.Timeout()
}

// ---------------------------------------------------------------- cluster runtime

type vhpxSnap struct {
	inv, recs, invUn, recUn int
}

type vhpxCluster struct {
	spec vhpxClusterSpec

	mu        sync.Mutex
	known     map[string]bool
	resetHits map[string]int
	clientTLS *tls.Config
	bursts    map[string]int
	specs     map[string]*vhpxRespSpec
	inv       map[string][]int
	invUn     int
	recs      map[string][]vhpxRecord
	recUn     int
	conns     map[net.Conn]struct{}
	listeners []net.Listener
	servers   []*Server
	addrs     []string
	done      []vhpxReqOut
	panicMsg  string
	cancelled bool
	torn      bool
}

func (c *vhpxCluster) setPanic(msg string) {
	c.mu.Lock()
	if c.panicMsg == "" {
		c.panicMsg = msg
	}
	c.mu.Unlock()
}

// guard is deferred in every goroutine the harness starts.
func (c *vhpxCluster) guard(where string) {
	if r := recover(); r != nil {
		c.setPanic(fmt.Sprintf("%s: %v", where, r))
	}
}

type vhpxCA struct {
	cert *x509.Certificate
	key  *ecdsa.PrivateKey
	pool *x509.CertPool
}

func vhpxNewCA() *vhpxCA {
	key, err := ecdsa.GenerateKey(elliptic.P256(), rand.Reader)
	if err != nil {
		panic(err)
	}
	tmpl := &x509.Certificate{SerialNumber: big.NewInt(1), Subject: pkix.Name{CommonName: "vhpx-ca"}, NotBefore: time.Now().Add(-time.Hour),
		NotAfter: time.Now().Add(24 * time.Hour), IsCA: true, KeyUsage: x509.KeyUsageCertSign | x509.KeyUsageDigitalSignature, BasicConstraintsValid: true}
	der, err := x509.CreateCertificate(rand.Reader, tmpl, tmpl, &key.PublicKey, key)
	if err != nil {
		panic(err)
	}
	cert, _ := x509.ParseCertificate(der)
	pool := x509.NewCertPool()
	pool.AddCert(cert)
	return &vhpxCA{cert: cert, key: key, pool: pool}
}

// serverConfig: a certificate valid for exactly this IP address
func (ca *vhpxCA) serverConfig(ip net.IP, serial int64) *tls.Config {
	key, err := ecdsa.GenerateKey(elliptic.P256(), rand.Reader)
	if err != nil {
		panic(err)
	}
	tmpl := &x509.Certificate{SerialNumber: big.NewInt(serial), Subject: pkix.Name{CommonName: ip.String()}, NotBefore: time.Now().Add(-time.Hour),
		NotAfter: time.Now().Add(24 * time.Hour), KeyUsage: x509.KeyUsageDigitalSignature, ExtKeyUsage: []x509.ExtKeyUsage{x509.ExtKeyUsageServerAuth},
		IPAddresses: []net.IP{ip}}
	der, err := x509.CreateCertificate(rand.Reader, tmpl, ca.cert, &key.PublicKey, ca.key)
	if err != nil {
		panic(err)
	}
	return &tls.Config{Certificates: []tls.Certificate{{Certificate: [][]byte{der}, PrivateKey: key}}}
}

func (c *vhpxCluster) listenOn(ip string) net.Listener {
	ln, err := net.Listen("tcp", ip+":0")
	if err != nil {
		panic("vhpx: listen: " + err.Error())
	}
	c.mu.Lock()
	c.listeners = append(c.listeners, ln)
	torn := c.torn
	c.mu.Unlock()
	if torn {
		ln.Close()
	}
	return ln
}

func (c *vhpxCluster) listen() net.Listener {
	ln, err := net.Listen("tcp", "127.0.0.1:0")
	if err != nil {
		panic("vhpx: listen: " + err.Error())
	}
	c.mu.Lock()
	c.listeners = append(c.listeners, ln)
	torn := c.torn
	c.mu.Unlock()
	if torn {
		ln.Close()
	}
	return ln
}

func (c *vhpxCluster) track(conn net.Conn) bool {
	c.mu.Lock()
	defer c.mu.Unlock()
	if c.torn {
		return false
	}
	c.conns[conn] = struct{}{}
	return true
}

func (c *vhpxCluster) untrack(conn net.Conn) {
	c.mu.Lock()
	delete(c.conns, conn)
	c.mu.Unlock()
	conn.Close()
}

// count attributes one handler invocation; it reports false when the request already caused more than
// vhpxMaxHops invocations (a forwarding loop in a broken tree): the caller then answers 508 itself so that
// a loop cannot run until the proxy timeout. The real code never gets near that bound (at most 2).
const vhpxMaxHops = 12

func (c *vhpxCluster) count(key string, idx int) bool {
	c.mu.Lock()
	defer c.mu.Unlock()
	if !c.known[key] {
		c.invUn++
		return c.invUn <= 10*vhpxMaxHops
	}
	v := c.inv[key]
	if v == nil {
		v = make([]int, len(c.spec.Nodes))
		c.inv[key] = v
	}
	if idx >= 0 && idx < len(v) {
		v[idx]++
	}
	total := 0
	for _, n := range v {
		total += n
	}
	limit := vhpxMaxHops
	if b := c.bursts[key]; b > 1 {
		limit *= b
	}
	return total <= limit
}

func (c *vhpxCluster) record(rec vhpxRecord) *vhpxRespSpec {
	c.mu.Lock()
	defer c.mu.Unlock()
	if !c.known[rec.Key] {
		c.recUn++
		return nil
	}
	c.recs[rec.Key] = append(c.recs[rec.Key], rec)
	return c.specs[rec.Key]
}

func (c *vhpxCluster) snap(key string) vhpxSnap {
	c.mu.Lock()
	defer c.mu.Unlock()
	s := vhpxSnap{recs: len(c.recs[key]), invUn: c.invUn, recUn: c.recUn}
	for _, n := range c.inv[key] {
		s.inv += n
	}
	return s
}

// settle waits until counters and records of key did not change for 30 ms (max 2 s).
func (c *vhpxCluster) settle(key string) {
	start := time.Now()
	last := c.snap(key)
	lastChange := start
	for {
		time.Sleep(5 * time.Millisecond)
		now := time.Now()
		s := c.snap(key)
		if s != last {
			last, lastChange = s, now
		} else if now.Sub(lastChange) >= 30*time.Millisecond {
			return
		}
		if now.Sub(start) >= 2*time.Second {
			return
		}
	}
}

func (c *vhpxCluster) isCancelled() bool {
	c.mu.Lock()
	defer c.mu.Unlock()
	return c.cancelled
}

// teardown never blocks for long: bounded Shutdown, then forced Close of everything.
func (c *vhpxCluster) teardown() {
	c.mu.Lock()
	if c.torn {
		c.mu.Unlock()
		return
	}
	c.torn = true
	c.cancelled = true
	servers := append([]*Server(nil), c.servers...)
	listeners := append([]net.Listener(nil), c.listeners...)
	conns := make([]net.Conn, 0, len(c.conns))
	for conn := range c.conns {
		conns = append(conns, conn)
	}
	c.mu.Unlock()

	fin := make(chan struct{})
	go func() {
		defer close(fin)
		defer func() { _ = recover() }()
		var wg sync.WaitGroup
		for _, srv := range servers {
			wg.Add(1)
			go func(srv *Server) {
				defer wg.Done()
				defer func() { _ = recover() }()
				ctx, cancel := context.WithTimeout(context.Background(), 300*time.Millisecond)
				_ = srv.Shutdown(ctx)
				cancel()
				_ = srv.httpServer.Close()
			}(srv)
		}
		wg.Wait()
		for _, ln := range listeners {
			_ = ln.Close()
		}
		for _, conn := range conns {
			_ = conn.Close()
		}
	}()
	select {
	case <-fin:
	case <-time.After(3 * time.Second):
	}
}

// ---------------------------------------------------------------- counting handler

type vhpxCounting struct {
	c    *vhpxCluster
	idx  int
	next http.Handler
}

func (h *vhpxCounting) ServeHTTP(w http.ResponseWriter, r *http.Request) {
	if !h.c.count(r.Header.Get(vhpxReqHeader), h.idx) {
		w.WriteHeader(http.StatusLoopDetected)
		return
	}
	h.next.ServeHTTP(w, r)
}

// ---------------------------------------------------------------- scripted upstream

type vhpxUpstream struct {
	c     *vhpxCluster
	id    string
	ep    string
	beh   string
	delay time.Duration
	ln    net.Listener
	agent net.Listener // when set, Dial reaches the agent's reverse proxy, which forwards to ln
	dials atomic.Int64
}

var _ upstream.Upstream = &vhpxUpstream{}

func (u *vhpxUpstream) EndpointID() string { return u.ep }
func (u *vhpxUpstream) Forward() bool      { return false }
func (u *vhpxUpstream) Dial() (net.Conn, error) {
	n := u.dials.Add(1)
	if u.beh == "dialfail" || (u.beh == "dialfail_once" && n == 1) {
		return nil, errors.New("vhpx: dial refused")
	}
	if u.beh == "gone" {
		// what ConnUpstream.Dial returns once the listener has announced go-away
		return nil, fmt.Errorf("vhpx: open stream: %w", upstream.ErrGone)
	}
	if u.agent != nil {
		return net.Dial("tcp", u.agent.Addr().String())
	}
	return net.Dial("tcp", u.ln.Addr().String())
}

func (u *vhpxUpstream) serve() {
	defer u.c.guard("upstream accept")
	for {
		conn, err := u.ln.Accept()
		if err != nil {
			return
		}
		go u.handle(conn)
	}
}

func (u *vhpxUpstream) handle(conn net.Conn) {
	defer u.c.guard("upstream conn")
	if !u.c.track(conn) {
		conn.Close()
		return
	}
	defer u.c.untrack(conn)

	if u.beh == "reset" {
		return
	}
	_ = conn.SetDeadline(time.Now().Add(90 * time.Second))
	br := bufio.NewReader(conn)
	pk, err := br.Peek(len(vhpxTCPMagic))
	if err != nil {
		return
	}
	if string(pk) == vhpxTCPMagic {
		if _, err := conn.Write([]byte("STAMP " + vhpxHex(u.ep) + " " + vhpxHex(u.id) + "\n")); err != nil {
			return
		}
		_, _ = io.Copy(conn, br)
		return
	}

	for {
		if !u.handleHTTP(conn, br) {
			return
		}
		_ = conn.SetDeadline(time.Now().Add(90 * time.Second))
	}
}

// handleHTTP answers one request; true = the peer may send another one on this connection (no "Connection: close").
func (u *vhpxUpstream) handleHTTP(conn net.Conn, br *bufio.Reader) bool {
	req, err := http.ReadRequest(br)
	if err != nil {
		return false
	}
	body, _ := io.ReadAll(req.Body)
	key := req.Header.Get(vhpxReqHeader)
	spec := u.c.record(vhpxRecord{
		Key:     key,
		UpID:    vhpxHex(u.id),
		UpEp:    vhpxHex(u.ep),
		Method:  vhpxHex(req.Method),
		URI:     vhpxHex(req.RequestURI),
		Host:    vhpxHex(req.Host),
		Headers: vhpxHeaderList(req.Header, req.TransferEncoding),
		BodyLen: len(body),
		BodySha: vhpxSha(body),
	})
	if spec == nil {
		spec = &vhpxRespSpec{Status: 200}
	}

	delay := u.delay
	if d := time.Duration(spec.DelayMs) * time.Millisecond; d > delay {
		delay = d
	}
	if delay > 0 {
		// Wait, but give up as soon as the peer goes away (gateway timeout upstream of us).
		deadline := time.Now().Add(delay)
		var one [1]byte
		for {
			_ = conn.SetReadDeadline(deadline)
			_, err := br.Read(one[:])
			if err == nil {
				continue
			}
			if vhpxIsTimeout(err) {
				break
			}
			return false
		}
		_ = conn.SetDeadline(time.Now().Add(90 * time.Second))
	}

	status := spec.Status
	if status == 0 {
		status = 200
	}
	text := http.StatusText(status)
	if text == "" {
		text = "Status"
	}
	respBody := vhpxBodyBytes(spec.Body)
	var buf bytes.Buffer
	fmt.Fprintf(&buf, "HTTP/1.1 %d %s\r\n", status, text)
	for _, kv := range spec.Headers {
		buf.WriteString(vhpxUnhex(kv[0]) + ": " + vhpxUnhex(kv[1]) + "\r\n")
	}
	buf.WriteString("X-Vh-Stamp-Ep: " + vhpxHex(u.ep) + "\r\n")
	buf.WriteString("X-Vh-Stamp-Up: " + vhpxHex(u.id) + "\r\n")
	if spec.Chunked {
		buf.WriteString("Transfer-Encoding: chunked\r\n")
	} else {
		fmt.Fprintf(&buf, "Content-Length: %d\r\n", len(respBody))
	}
	buf.WriteString("\r\n") // no "Connection: close": net/http drops the whole Connection header (and with it the other tokens) when it sees close
	if spec.CutAfter > 0 && spec.CutAfter < len(respBody) && req.Method != http.MethodHead {
		part := respBody[:spec.CutAfter]
		if spec.Chunked {
			fmt.Fprintf(&buf, "%x\r\n", len(part))
			buf.Write(part)
			buf.WriteString("\r\n")
		} else {
			buf.Write(part)
		}
		_, _ = conn.Write(buf.Bytes())
		time.Sleep(60 * time.Millisecond) // let the proxy pass on what it has
		if tc, ok := conn.(*net.TCPConn); ok {
			_ = tc.SetLinger(0)
		}
		return false
	}
	if req.Method != http.MethodHead {
		if spec.Chunked {
			vhpxChunked(&buf, respBody)
		} else {
			buf.Write(respBody)
		}
	}
	if _, err := conn.Write(buf.Bytes()); err != nil {
		return false
	}
	if !req.Close && delay == 0 {
		// keep-alive, like a real service: the proxy decides whether it sends another request on this connection
		return true
	}
	// Graceful close: FIN, then wait (shortly) for the peer to close so that nothing is cut by a RST.
	if tc, ok := conn.(*net.TCPConn); ok {
		_ = tc.CloseWrite()
		_ = conn.SetReadDeadline(time.Now().Add(2 * time.Second))
		_, _ = io.Copy(io.Discard, br)
	}
	return false
}


// vhpxDead accepts and immediately closes every connection.
// serveReset: a node that receives the whole forwarded request and then dies: the connection is reset before any answer. The
// request WAS delivered (counted per request tag); it must not be sent anywhere else as well.
func (c *vhpxCluster) serveReset(ln net.Listener) {
	defer c.guard("reset listener")
	for {
		conn, err := ln.Accept()
		if err != nil {
			return
		}
		go func(conn net.Conn) {
			defer c.guard("reset conn")
			_ = conn.SetDeadline(time.Now().Add(5 * time.Second))
			br := bufio.NewReader(conn)
			if req, err := http.ReadRequest(br); err == nil {
				_, _ = io.Copy(io.Discard, req.Body)
				c.mu.Lock()
				if c.resetHits == nil {
					c.resetHits = map[string]int{}
				}
				c.resetHits[req.Header.Get(vhpxReqHeader)]++
				c.mu.Unlock()
			}
			if tc, ok := conn.(*net.TCPConn); ok {
				_ = tc.SetLinger(0)
			}
			_ = conn.Close()
		}(conn)
	}
}

func (c *vhpxCluster) serveDead(ln net.Listener) {
	defer c.guard("dead accept")
	for {
		conn, err := ln.Accept()
		if err != nil {
			return
		}
		conn.Close()
	}
}

// ---------------------------------------------------------------- cluster setup + requests

func (c *vhpxCluster) run() {
	spec := c.spec
	n := len(spec.Nodes)

	nodeLns := make([]net.Listener, n)
	addrs := make([]string, n)
	var ca *vhpxCA
	serverTLS := make([]*tls.Config, n)
	if spec.TLS {
		ca = vhpxNewCA()
		c.clientTLS = &tls.Config{RootCAs: ca.pool}
	}
	for i := range spec.Nodes {
		if spec.TLS {
			ip := fmt.Sprintf("127.0.0.%d", i+2)
			nodeLns[i] = c.listenOn(ip)
			serverTLS[i] = ca.serverConfig(net.ParseIP(ip), int64(i+2))
		} else {
			nodeLns[i] = c.listen()
		}
		addrs[i] = nodeLns[i].Addr().String()
	}
	c.mu.Lock()
	c.addrs = addrs
	c.mu.Unlock()

	deadLn := c.listen()
	go c.serveDead(deadLn)
	resetLn := c.listen()
	go c.serveReset(resetLn)

	states := make([]*cluster.State, n)
	mgrs := make([]*upstream.LoadBalancedManager, n)
	ups := make([]map[string]*vhpxUpstream, n)
	for i, ns := range spec.Nodes {
		ups[i] = map[string]*vhpxUpstream{}
		st := cluster.NewState(&cluster.Node{
			ID:        ns.ID,
			ProxyAddr: addrs[i],
			AdminAddr: "127.0.0.1:0",
		}, log.NewNopLogger())
		states[i] = st
		var nodeClientTLS *tls.Config
		if spec.TLS {
			// ONE client configuration per node for all its peers, as server.NewServer builds it
			nodeClientTLS = &tls.Config{RootCAs: ca.pool}
		}
		mgr := upstream.NewLoadBalancedManager(st, nodeClientTLS)

		conf := config.Default().Proxy
		conf.Timeout = time.Duration(spec.TimeoutMs) * time.Millisecond
		conf.AccessLog.Disable = true
		if al := spec.AccessLog; al != nil {
			conf.AccessLog.Disable = al.Disable
			conf.AccessLog.RequestHeaders.BlockList = al.ReqBlock
			conf.AccessLog.RequestHeaders.AllowList = al.ReqAllow
			conf.AccessLog.ResponseHeaders.BlockList = al.RespBlock
			conf.AccessLog.ResponseHeaders.AllowList = al.RespAllow
		}
		var verifier *auth.MultiTenantVerifier
		if spec.Auth {
			verifier = auth.NewMultiTenantVerifier(auth.NewJWTVerifier(&auth.LoadedConfig{HMACSecretKey: []byte(vhpxSecret)}), nil)
		}
		srv := NewServer(mgr, conf, nil, verifier, serverTLS[i], log.NewNopLogger())
		srv.httpServer.Handler = &vhpxCounting{c: c, idx: i, next: srv.httpServer.Handler}
		c.mu.Lock()
		c.servers = append(c.servers, srv)
		c.mu.Unlock()

		mgrs[i] = mgr
		for _, us := range ns.Upstreams {
			u := &vhpxUpstream{
				c:     c,
				id:    vhpxUnhex(us.ID),
				ep:    vhpxUnhex(us.Ep),
				beh:   us.Beh,
				delay: time.Duration(us.DelayMs) * time.Millisecond,
				ln:    c.listen(),
			}
			go u.serve()
			if spec.ViaAgent && us.Beh != "dialfail" {
				aconf := agentconfig.ListenerConfig{EndpointID: u.ep, Addr: u.ln.Addr().String(), Protocol: agentconfig.ListenerProtocolHTTP}
				aconf.AccessLog.Disable = true
				aconf.AccessLog.Level = "info"
				aconf.HTTPClient.MaxIdleConns = spec.AgentIdle
				asrv := reverseproxy.NewServer(aconf, reverseproxy.NewMetrics("vhpx"), log.NewNopLogger())
				u.agent = c.listen()
				go func(ln net.Listener) {
					defer c.guard("agent serve")
					_ = asrv.Serve(ln)
				}(u.agent)
			}
			mgr.AddConn(u)
			ups[i][u.id] = u
		}

		go func(srv *Server, ln net.Listener) {
			defer c.guard("serve")
			_ = srv.Serve(ln)
		}(srv, nodeLns[i])
	}

	// Views (every listener exists by now).
	setView := func(i int, views []vhpxViewSpec) {
		st := states[i]
		for _, v := range views {
			var addr string
			switch {
			case v.Addr == "refuse":
				addr = "127.0.0.1:1"
			case v.Addr == "dead":
				addr = deadLn.Addr().String()
			case v.Addr == "reset":
				addr = resetLn.Addr().String()
			case strings.HasPrefix(v.Addr, "node:"):
				k, err := strconv.Atoi(strings.TrimPrefix(v.Addr, "node:"))
				if err != nil || k < 0 || k >= n {
					panic("vhpx: bad view addr " + v.Addr)
				}
				addr = addrs[k]
			default:
				panic("vhpx: bad view addr " + v.Addr)
			}
			st.RemoveNode(v.ID) // a "view" op replaces what the node knew about v.ID (no-op for a node it did not know)
			st.AddNode(&cluster.Node{ID: v.ID, Status: cluster.NodeStatusActive, ProxyAddr: addr})
			for _, e := range v.Eps {
				if len(e) != 2 {
					panic("vhpx: bad eps entry")
				}
				ep, ok1 := e[0].(string)
				cnt, ok2 := e[1].(float64)
				if !ok1 || !ok2 {
					panic("vhpx: bad eps entry")
				}
				st.UpdateRemoteEndpoint(v.ID, vhpxUnhex(ep), int(cnt))
			}
			switch v.Status {
			case "", "active":
			case "unreachable":
				st.UpdateRemoteStatus(v.ID, cluster.NodeStatusUnreachable)
			case "left":
				st.UpdateRemoteStatus(v.ID, cluster.NodeStatusLeft)
			default:
				panic("vhpx: bad view status " + v.Status)
			}
		}
	}
	for i, ns := range spec.Nodes {
		setView(i, ns.View)
	}

	for ri := range spec.Requests {
		if c.isCancelled() {
			return
		}
		rq := &spec.Requests[ri]
		key := spec.ID + "/" + strconv.Itoa(ri)
		c.mu.Lock()
		c.known[key] = true
		if c.bursts == nil {
			c.bursts = map[string]int{}
		}
		c.bursts[key] = rq.Burst
		c.specs[key] = rq.Resp
		c.mu.Unlock()

		out := vhpxReqOut{Key: key, Inv: make([]int, n), UpReqs: []vhpxRecord{}}
		if rq.Entry < 0 || rq.Entry >= n {
			panic("vhpx: bad entry index")
		}
		start := time.Now()
		switch rq.Kind {
		case "connect":
			// an upstream registers with node Entry now (agent reconnect, rebalancing, a new listener)
			u := &vhpxUpstream{c: c, id: vhpxUnhex(rq.Up.ID), ep: vhpxUnhex(rq.Up.Ep), beh: rq.Up.Beh,
				delay: time.Duration(rq.Up.DelayMs) * time.Millisecond, ln: c.listen()}
			go u.serve()
			mgrs[rq.Entry].AddConn(u)
			ups[rq.Entry][u.id] = u
		case "view":
			// gossip caught up: what node Entry knows about the listed nodes is replaced
			setView(rq.Entry, rq.View)
		case "disconnect":
			if u, ok := ups[rq.Entry][vhpxUnhex(rq.UpID)]; ok {
				mgrs[rq.Entry].RemoveConn(u)
				delete(ups[rq.Entry], u.id)
			}
		case "http":
			if rq.Burst > 1 {
				copies := make([]vhpxReqOut, rq.Burst)
				var wg sync.WaitGroup
				for k := range copies {
					wg.Add(1)
					go func(k int) {
						defer wg.Done()
						defer c.guard("burst request")
						t := time.Now()
						c.doHTTP(addrs[rq.Entry], rq, key, &copies[k])
						copies[k].ElapsedMs = time.Since(t).Milliseconds()
					}(k)
				}
				wg.Wait()
				first := copies[0]
				out.Err, out.Status, out.Stamped, out.StampEp, out.StampUp, out.Resp = first.Err, first.Status, first.Stamped, first.StampEp, first.StampUp, first.Resp
				for _, cp := range copies {
					out.BurstStatus = append(out.BurstStatus, cp.Status)
					out.BurstStamped = append(out.BurstStamped, cp.Stamped)
					out.BurstMs = append(out.BurstMs, cp.ElapsedMs)
				}
				break
			}
			c.doHTTP(addrs[rq.Entry], rq, key, &out)
		case "tcp":
			c.doTCP(addrs[rq.Entry], rq, key, &out)
		default:
			panic("vhpx: bad request kind " + rq.Kind)
		}
		out.ElapsedMs = time.Since(start).Milliseconds()

		c.settle(key)

		c.mu.Lock()
		if v := c.inv[key]; v != nil {
			copy(out.Inv, v)
		}
		out.UpReqs = append(out.UpReqs, c.recs[key]...)
		out.ResetHits = c.resetHits[key]
		out.InvUnattributed, c.invUn = c.invUn, 0
		out.UpUnattributed, c.recUn = c.recUn, 0
		c.done = append(c.done, out)
		c.mu.Unlock()
	}
}

func (c *vhpxCluster) doHTTP(addr string, rq *vhpxReqSpec, key string, out *vhpxReqOut) {
	method := rq.Method
	body := vhpxBodyBytes(rq.Body)

	var buf bytes.Buffer
	buf.WriteString(method + " " + vhpxUnhex(rq.Target) + " HTTP/1.1\r\n")
	buf.WriteString("Host: " + vhpxUnhex(rq.Host) + "\r\n")
	for _, kv := range rq.Headers {
		buf.WriteString(vhpxUnhex(kv[0]) + ": " + vhpxUnhex(kv[1]) + "\r\n")
	}
	buf.WriteString(vhpxReqHeader + ": " + key + "\r\n")
	if c.spec.Auth && !rq.NoToken {
		if rq.XAuth {
			buf.WriteString("x-piko-authorization: Bearer " + vhpxToken(rq.TokenEps) + "\r\n")
			buf.WriteString("Authorization: Basic dXNlcjpwYXNz\r\n")
		} else {
			buf.WriteString("Authorization: Bearer " + vhpxToken(rq.TokenEps) + "\r\n")
		}
	}
	if len(body) > 0 || method == "POST" || method == "PUT" || method == "PATCH" {
		if rq.ChunkedReq {
			buf.WriteString("Transfer-Encoding: chunked\r\n\r\n")
			vhpxChunked(&buf, body)
		} else {
			fmt.Fprintf(&buf, "Content-Length: %d\r\n\r\n", len(body))
			buf.Write(body)
		}
	} else {
		buf.WriteString("\r\n")
	}

	conn, err := net.DialTimeout("tcp", addr, 10*time.Second)
	if err != nil {
		out.Err = "dial: " + err.Error()
		return
	}
	if c.clientTLS != nil {
		host, _, _ := net.SplitHostPort(addr)
		cfg := c.clientTLS.Clone()
		cfg.ServerName = host
		tc := tls.Client(conn, cfg)
		if err := tc.Handshake(); err != nil {
			out.Err = "tls handshake: " + err.Error()
			conn.Close()
			return
		}
		conn = tc
	}
	defer conn.Close()
	_ = conn.SetDeadline(time.Now().Add(vhpxReqDeadline))

	// Write concurrently with reading: the server may answer (and close) before it consumed everything.
	werr := make(chan error, 1)
	go func() {
		_, err := conn.Write(buf.Bytes())
		if err == nil && rq.HalfClose {
			if tc, ok := conn.(*net.TCPConn); ok {
				_ = tc.CloseWrite()
			}
		}
		werr <- err
	}()

	resp, err := http.ReadResponse(bufio.NewReader(conn), &http.Request{Method: method})
	if err != nil {
		out.Err = "read response: " + err.Error()
		conn.Close()
		if we := <-werr; we != nil {
			out.Err += "; write: " + we.Error()
		}
		return
	}
	rb, rerr := io.ReadAll(resp.Body)
	resp.Body.Close()
	if rerr != nil {
		out.Err = "read body: " + rerr.Error()
	}
	conn.Close()
	<-werr

	out.Status = resp.StatusCode
	c.fillResp(out, resp, rb)
	if vs := resp.Header["X-Vh-Stamp-Ep"]; len(vs) > 0 {
		out.Stamped = true
		out.StampEp = vs[0]
	}
	if vs := resp.Header["X-Vh-Stamp-Up"]; len(vs) > 0 {
		out.Stamped = true
		out.StampUp = vs[0]
	}
}

func (c *vhpxCluster) fillResp(out *vhpxReqOut, resp *http.Response, body []byte) {
	ro := &vhpxRespOut{
		Proto:   resp.Proto,
		Headers: vhpxHeaderList(resp.Header, nil),
		BodyLen: len(body),
		BodySha: vhpxSha(body),
	}
	for _, te := range resp.TransferEncoding {
		if strings.EqualFold(te, "chunked") {
			ro.Chunked = true
		}
	}
	out.Resp = ro
}

func (c *vhpxCluster) doTCP(addr string, rq *vhpxReqSpec, key string, out *vhpxReqOut) {
	echoOK := false
	out.EchoOK = &echoOK

	hdr := http.Header{}
	for _, kv := range rq.Headers {
		hdr.Add(vhpxUnhex(kv[0]), vhpxUnhex(kv[1]))
	}
	hdr.Set(vhpxReqHeader, key)
	if host := vhpxUnhex(rq.Host); host != "" {
		hdr.Set("Host", host)
	}
	payload := vhpxUnhex(rq.Payload)

	dialer := vhpxws.Dialer{HandshakeTimeout: 15 * time.Second}
	ws, resp, err := dialer.Dial("ws://"+addr+"/_piko/v1/tcp/"+vhpxUnhex(rq.Seg), hdr)
	if err != nil {
		out.Err = "handshake: " + err.Error()
		if resp != nil {
			out.Status = resp.StatusCode
			var rb []byte
			if resp.Body != nil {
				rb, _ = io.ReadAll(resp.Body)
				resp.Body.Close()
			}
			c.fillResp(out, resp, rb)
		}
		return
	}
	defer ws.Close()
	if resp != nil {
		out.Status = resp.StatusCode
		c.fillResp(out, resp, nil)
	}

	want := vhpxTCPMagic + payload
	_ = ws.SetWriteDeadline(time.Now().Add(10 * time.Second))
	if err := ws.WriteMessage(vhpxws.BinaryMessage, []byte(want)); err != nil {
		out.Err = "write: " + err.Error()
		return
	}
	_ = ws.SetReadDeadline(time.Now().Add(10 * time.Second))
	var got []byte
	for {
		nl := bytes.IndexByte(got, '\n')
		if nl >= 0 && len(got)-(nl+1) >= len(want) {
			break
		}
		_, b, err := ws.ReadMessage()
		if err != nil {
			out.Err = "read: " + err.Error()
			break
		}
		got = append(got, b...)
	}
	if nl := bytes.IndexByte(got, '\n'); nl >= 0 {
		parts := strings.Split(string(got[:nl]), " ")
		if len(parts) == 3 && parts[0] == "STAMP" {
			out.Stamped = true
			out.StampEp = parts[1]
			out.StampUp = parts[2]
		}
		echoOK = string(got[nl+1:]) == want
	}
}

func vhpxRunCluster(spec vhpxClusterSpec) vhpxClusterOut {
	c := &vhpxCluster{
		spec:  spec,
		known: map[string]bool{},
		specs: map[string]*vhpxRespSpec{},
		inv:   map[string][]int{},
		recs:  map[string][]vhpxRecord{},
		conns: map[net.Conn]struct{}{},
	}
	fin := make(chan struct{})
	go func() {
		defer close(fin)
		defer c.guard("cluster")
		c.run()
	}()
	watchdog := false
	timer := time.NewTimer(vhpxWatchdog)
	select {
	case <-fin:
		timer.Stop()
	case <-timer.C:
		watchdog = true
	}
	c.teardown()

	c.mu.Lock()
	defer c.mu.Unlock()
	out := vhpxClusterOut{
		ID:       spec.ID,
		Panic:    c.panicMsg,
		Addrs:    append([]string{}, c.addrs...),
		Requests: append([]vhpxReqOut{}, c.done...),
	}
	if watchdog {
		out.Panic = "watchdog"
	}
	return out
}

func vhpxHost(pair [2]string) (res string) {
	defer func() {
		if r := recover(); r != nil {
			res = fmt.Sprintf("!panic: %v", r)
		}
	}()
	hdr, host := vhpxUnhex(pair[0]), vhpxUnhex(pair[1])
	h := http.Header{}
	if hdr != "" {
		h.Set("x-piko-endpoint", hdr)
	}
	return vhpxHex(EndpointIDFromRequest(&http.Request{Host: host, Header: h}))
}

func TestVerifHarness_Proxy(t *testing.T) {
	inPath, outPath := os.Getenv("VERIF_IN"), os.Getenv("VERIF_OUT")
	if inPath == "" {
		t.Skip("VERIF_IN not set")
	}
	raw, err := os.ReadFile(inPath)
	if err != nil {
		t.Fatal(err)
	}
	var in vhpxInput
	if err := json.Unmarshal(raw, &in); err != nil {
		t.Fatal(err)
	}

	res := make([]vhpxClusterOut, len(in.Clusters))
	var wg sync.WaitGroup
	sem := make(chan struct{}, vhpxMaxConcurrency)
	for i := range in.Clusters {
		wg.Add(1)
		sem <- struct{}{}
		go func(i int) {
			defer wg.Done()
			defer func() { <-sem }()
			defer func() {
				if r := recover(); r != nil {
					res[i] = vhpxClusterOut{ID: in.Clusters[i].ID, Panic: fmt.Sprint(r), Addrs: []string{}, Requests: []vhpxReqOut{}}
				}
			}()
			res[i] = vhpxRunCluster(in.Clusters[i])
		}(i)
	}
	wg.Wait()

	hosts := make([]string, 0, len(in.Hosts))
	for _, p := range in.Hosts {
		hosts = append(hosts, vhpxHost(p))
	}

	b, err := json.Marshal(map[string]any{"clusters": res, "hosts": hosts})
	if err != nil {
		t.Fatal(err)
	}
	if err := os.WriteFile(outPath, b, 0o644); err != nil {
		t.Fatal(err)
	}
}
