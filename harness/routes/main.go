// Route-table extractor for property C09 (go/ast only, no dependencies outside the standard library).
//
// Run from inside /repo's module:   cd $REPO && go run /verif/harness/routes/main.go -repo . -v out.v -json out.json
//
// It symbolically executes, in source order, the gin registration code of the three piko servers
// (NewServer -> registerRoutes, and for the admin port every `adminServer.AddStatus(route, pkg.NewStatus(..))`
// found in server/server.go -> admin.(*Server).AddStatus -> pkg.(*Status).Register) and emits the sequence of
// registration operations  [Use ...; Group ...; GET ...; NoRoute ...]  with the `if` conditions they are under,
// as a Coq list (coq/generated/RouteTables.v) and as JSON (for the request generator).
//
// The extractor FAILS CLOSED: any statement that touches the router / a router group in a way it does not
// understand is an error (exit status 2), so that a new registration idiom cannot silently escape the theorem.
package main

import (
	"bytes"
	"encoding/json"
	"flag"
	"fmt"
	"go/ast"
	"go/parser"
	"go/printer"
	"go/token"
	"os"
	"path/filepath"
	"sort"
	"strconv"
	"strings"
)

const modulePath = "github.com/andydunstall/piko/"

type lit struct {
	Name string `json:"name"`
	Val  bool   `json:"val"`
}

type op struct {
	Kind    string   `json:"kind"` // use | group | handle | noroute
	Cond    []lit    `json:"cond"`
	Group   string   `json:"group"`   // use/handle: target group ("" = engine root); group: new group name
	Parent  string   `json:"parent"`  // group
	Prefix  string   `json:"prefix"`  // group
	Method  string   `json:"method"`  // handle
	Path    string   `json:"path"`    // handle
	Mws     []string `json:"mws"`     // use: [mw]; group/handle: extra middleware; noroute: all handlers
	Handler string   `json:"handler"` // handle
	Pos     string   `json:"pos"`
}

type pkgInfo struct {
	dir   string
	fset  *token.FileSet
	files map[string]*ast.File
}

var fset = token.NewFileSet()

func fail(pos token.Pos, format string, a ...any) {
	p := ""
	if pos.IsValid() {
		p = fset.Position(pos).String() + ": "
	}
	fmt.Fprintf(os.Stderr, "routes extractor: %s%s\n", p, fmt.Sprintf(format, a...))
	os.Exit(2)
}

func loadPkg(repo, rel string) *pkgInfo {
	dir := filepath.Join(repo, rel)
	ents, err := os.ReadDir(dir)
	if err != nil {
		fail(token.NoPos, "read %s: %v", dir, err)
	}
	pi := &pkgInfo{dir: rel, fset: fset, files: map[string]*ast.File{}}
	for _, e := range ents {
		n := e.Name()
		if e.IsDir() || !strings.HasSuffix(n, ".go") || strings.HasSuffix(n, "_test.go") {
			continue
		}
		f, err := parser.ParseFile(fset, filepath.Join(dir, n), nil, parser.SkipObjectResolution)
		if err != nil {
			fail(token.NoPos, "parse %s: %v", n, err)
		}
		pi.files[n] = f
	}
	return pi
}

func (p *pkgInfo) findFunc(name, recvType string) *ast.FuncDecl {
	names := make([]string, 0, len(p.files))
	for n := range p.files {
		names = append(names, n)
	}
	sort.Strings(names)
	for _, n := range names {
		for _, d := range p.files[n].Decls {
			fd, ok := d.(*ast.FuncDecl)
			if !ok || fd.Name.Name != name {
				continue
			}
			if recvType == "" {
				if fd.Recv == nil {
					return fd
				}
				continue
			}
			if fd.Recv != nil && len(fd.Recv.List) == 1 && typeName(fd.Recv.List[0].Type) == recvType {
				return fd
			}
		}
	}
	return nil
}

func typeName(e ast.Expr) string {
	switch t := e.(type) {
	case *ast.StarExpr:
		return typeName(t.X)
	case *ast.Ident:
		return t.Name
	case *ast.SelectorExpr:
		return typeName(t.X) + "." + t.Sel.Name
	}
	return ""
}

func text(e ast.Node) string {
	var b bytes.Buffer
	_ = printer.Fprint(&b, fset, e)
	return strings.Join(strings.Fields(b.String()), " ")
}

// ---------------------------------------------------------------- symbolic values
type value struct {
	kind string // engine | group | auth | str | status | recv
	name string // group name, string value, status package dir
}

type interp struct {
	repo     string
	pkg      *pkgInfo
	ops      []op
	ngroup   int
	verifier string // name of the *auth.MultiTenantVerifier parameter of NewServer
	depth    int
}

type scope struct {
	vars map[string]value
	cond []lit
}

func (s *scope) child() *scope {
	n := &scope{vars: map[string]value{}, cond: append([]lit{}, s.cond...)}
	for k, v := range s.vars {
		n.vars[k] = v
	}
	return n
}

// eval returns the symbolic value of an expression (zero value when it is not something we track)
func (in *interp) eval(sc *scope, e ast.Expr) (value, bool) {
	switch x := e.(type) {
	case *ast.ParenExpr:
		return in.eval(sc, x.X)
	case *ast.Ident:
		v, ok := sc.vars[x.Name]
		return v, ok
	case *ast.BasicLit:
		if x.Kind == token.STRING {
			s, err := strconv.Unquote(x.Value)
			if err != nil {
				fail(x.Pos(), "bad string literal")
			}
			return value{kind: "str", name: s}, true
		}
	case *ast.SelectorExpr:
		// <receiver>.router is the engine (admin.Server keeps the engine in a field named router)
		if x.Sel.Name == "router" {
			if v, ok := sc.vars["#field.router"]; ok {
				return v, true
			}
		}
	case *ast.CallExpr:
		if text(x.Fun) == "gin.New" || text(x.Fun) == "gin.Default" {
			if text(x.Fun) == "gin.Default" {
				fail(x.Pos(), "gin.Default is not modelled")
			}
			return value{kind: "engine", name: ""}, true
		}
		if sel, ok := x.Fun.(*ast.SelectorExpr); ok {
			if text(x.Fun) == "middleware.NewAuth" {
				if len(x.Args) < 1 || text(x.Args[0]) != in.verifier || in.verifier == "" {
					fail(x.Pos(), "middleware.NewAuth is not applied to the server's verifier parameter")
				}
				return value{kind: "auth"}, true
			}
			if recv, ok := in.eval(sc, sel.X); ok && (recv.kind == "engine" || recv.kind == "group") {
				if sel.Sel.Name == "Group" {
					if len(x.Args) < 1 {
						fail(x.Pos(), "Group without prefix")
					}
					pv, ok := in.eval(sc, x.Args[0])
					if !ok || pv.kind != "str" {
						fail(x.Pos(), "Group prefix is not a string literal: %s", text(x.Args[0]))
					}
					checkPath(x.Pos(), pv.name)
					in.ngroup++
					g := fmt.Sprintf("g%d", in.ngroup)
					var mws []string
					for _, a := range x.Args[1:] {
						mws = append(mws, in.mwName(sc, a))
					}
					in.emit(sc, op{Kind: "group", Group: g, Parent: recv.name, Prefix: pv.name, Mws: mws, Pos: in.pos(x.Pos())})
					return value{kind: "group", name: g}, true
				}
			}
		}
	}
	return value{}, false
}

func checkPath(pos token.Pos, p string) {
	if p == "" || p[0] != '/' || strings.Contains(p, "//") || strings.Contains(p, "/./") || strings.Contains(p, "/../") ||
		strings.HasSuffix(p, "/.") || strings.HasSuffix(p, "/..") || strings.Contains(p, "*") {
		fail(pos, "route path %q is outside the modelled shape (must start with '/', no '//', '.', '..', catch-all)", p)
	}
}

func (in *interp) pos(p token.Pos) string {
	ps := fset.Position(p)
	rel, err := filepath.Rel(in.repo, ps.Filename)
	if err != nil {
		rel = ps.Filename
	}
	return fmt.Sprintf("%s:%d", rel, ps.Line)
}

func (in *interp) emit(sc *scope, o op) {
	o.Cond = append([]lit{}, sc.cond...)
	if o.Mws == nil {
		o.Mws = []string{}
	}
	in.ops = append(in.ops, o)
}

// mwName names a handler / middleware expression. The auth middleware is `X.Verify` where
// X := middleware.NewAuth(<verifier param>, ..).
func (in *interp) mwName(sc *scope, e ast.Expr) string { return in.mwName2(sc, e, true) }

// useName: middleware given to Use is named by its constructor only (stable against argument changes)
func (in *interp) useName(sc *scope, e ast.Expr) string { return in.mwName2(sc, e, false) }

func (in *interp) mwName2(sc *scope, e ast.Expr, withArgs bool) string {
	if sel, ok := e.(*ast.SelectorExpr); ok {
		if v, ok := in.eval(sc, sel.X); ok && v.kind == "auth" {
			if sel.Sel.Name != "Verify" {
				fail(e.Pos(), "unknown method %s of the auth middleware", sel.Sel.Name)
			}
			return "auth"
		}
		return text(e)
	}
	if call, ok := e.(*ast.CallExpr); ok {
		in.mustNotMention(sc, call, "argument of a handler constructor")
		// name a constructed handler by its constructor and literal arguments, e.g. gin.WrapH(pprof.Handler("heap"))
		if !withArgs {
			return text(call.Fun)
		}
		return text(call.Fun) + "(" + strings.Join(argTexts(call.Args), ",") + ")"
	}
	if _, ok := e.(*ast.FuncLit); ok {
		return "func-literal@" + in.pos(e.Pos())
	}
	return text(e)
}

func argTexts(args []ast.Expr) []string {
	var out []string
	for _, a := range args {
		switch a.(type) {
		case *ast.BasicLit, *ast.CallExpr, *ast.SelectorExpr, *ast.Ident:
			t := text(a)
			if len(t) > 40 {
				t = t[:40]
			}
			out = append(out, t)
		default:
			out = append(out, "_")
		}
	}
	return out
}

// mentions reports whether the node refers to a tracked engine / group value
func (in *interp) mentions(sc *scope, n ast.Node) (found bool) {
	if n == nil {
		return false
	}
	ast.Inspect(n, func(m ast.Node) bool {
		switch x := m.(type) {
		case *ast.Ident:
			if v, ok := sc.vars[x.Name]; ok && (v.kind == "engine" || v.kind == "group") {
				found = true
			}
		case *ast.SelectorExpr:
			if x.Sel.Name == "router" {
				if _, ok := sc.vars["#field.router"]; ok {
					found = true
				}
			}
		}
		return !found
	})
	return found
}

func (in *interp) mustNotMention(sc *scope, n ast.Node, what string) {
	if in.mentions(sc, n) {
		fail(n.Pos(), "unsupported use of the router in %s: %s", what, text(n))
	}
}

var httpMethods = map[string]string{"GET": "GET", "POST": "POST", "PUT": "PUT", "DELETE": "DELETE", "PATCH": "PATCH",
	"HEAD": "HEAD", "OPTIONS": "OPTIONS"}

func (in *interp) call(sc *scope, c *ast.CallExpr) {
	sel, ok := c.Fun.(*ast.SelectorExpr)
	if !ok {
		in.mustNotMention(sc, c, "call")
		return
	}
	recv, tracked := in.eval(sc, sel.X)
	name := sel.Sel.Name
	if tracked && (recv.kind == "engine" || recv.kind == "group") {
		switch {
		case name == "Use":
			for _, a := range c.Args {
				in.emit(sc, op{Kind: "use", Group: recv.name, Mws: []string{in.useName(sc, a)}, Pos: in.pos(c.Pos())})
			}
		case name == "Group":
			in.eval(sc, c) // emits the group; result unused
		case httpMethods[name] != "" || name == "Any":
			if len(c.Args) < 2 {
				fail(c.Pos(), "route registration without handler")
			}
			pv, ok := in.eval(sc, c.Args[0])
			if !ok || pv.kind != "str" {
				fail(c.Pos(), "route path is not a string literal: %s", text(c.Args[0]))
			}
			checkPath(c.Pos(), pv.name)
			var hs []string
			for _, a := range c.Args[1:] {
				hs = append(hs, in.mwName(sc, a))
			}
			ms := []string{httpMethods[name]}
			if name == "Any" {
				ms = []string{"GET", "POST", "PUT", "PATCH", "HEAD", "OPTIONS", "DELETE", "CONNECT", "TRACE"}
			}
			for _, m := range ms {
				in.emit(sc, op{Kind: "handle", Group: recv.name, Method: m, Path: pv.name, Mws: hs[:len(hs)-1],
					Handler: hs[len(hs)-1], Pos: in.pos(c.Pos())})
			}
		case name == "Handle":
			if len(c.Args) < 3 {
				fail(c.Pos(), "Handle without handler")
			}
			mv, ok1 := in.eval(sc, c.Args[0])
			pv, ok2 := in.eval(sc, c.Args[1])
			if !ok1 || !ok2 || mv.kind != "str" || pv.kind != "str" {
				fail(c.Pos(), "Handle with non-literal method or path")
			}
			checkPath(c.Pos(), pv.name)
			var hs []string
			for _, a := range c.Args[2:] {
				hs = append(hs, in.mwName(sc, a))
			}
			in.emit(sc, op{Kind: "handle", Group: recv.name, Method: mv.name, Path: pv.name, Mws: hs[:len(hs)-1],
				Handler: hs[len(hs)-1], Pos: in.pos(c.Pos())})
		case name == "NoRoute" && recv.kind == "engine":
			var hs []string
			for _, a := range c.Args {
				hs = append(hs, in.mwName(sc, a))
			}
			in.emit(sc, op{Kind: "noroute", Mws: hs, Pos: in.pos(c.Pos())})
		default:
			fail(c.Pos(), "unsupported router method %s in %s", name, text(c))
		}
		return
	}
	// a method of the server itself / of a status handler that receives the router or a group: inline it
	argTracked := false
	for _, a := range c.Args {
		if in.mentions(sc, a) {
			argTracked = true
		}
	}
	if tracked && recv.kind == "status" && name == "Register" {
		in.inline(sc, recv.name, "Register", "Status", c, value{})
		return
	}
	if tracked && recv.kind == "recv" {
		if fd := in.pkg.findFunc(name, "Server"); fd != nil && (argTracked || in.methodTouchesRouter(fd)) {
			in.inlineDecl(sc, in.pkg, fd, c, recv)
			return
		}
	}
	if argTracked {
		fail(c.Pos(), "the router is passed to a function the extractor cannot follow: %s", text(c))
	}
	for _, a := range c.Args {
		in.mustNotMention(sc, a, "call argument")
	}
}

// methodTouchesRouter: a method of the server type that uses the engine through the receiver's router field
func (in *interp) methodTouchesRouter(fd *ast.FuncDecl) bool {
	found := false
	ast.Inspect(fd.Body, func(n ast.Node) bool {
		if s, ok := n.(*ast.SelectorExpr); ok && s.Sel.Name == "router" {
			found = true
		}
		return !found
	})
	return found
}

func (in *interp) inline(sc *scope, pkgDir, fn, recvType string, c *ast.CallExpr, recv value) {
	p := loadPkg(in.repo, pkgDir)
	fd := p.findFunc(fn, recvType)
	if fd == nil {
		fail(c.Pos(), "cannot find (%s).%s in %s", recvType, fn, pkgDir)
	}
	in.inlineDecl(sc, p, fd, c, recv)
}

func (in *interp) inlineDecl(sc *scope, p *pkgInfo, fd *ast.FuncDecl, c *ast.CallExpr, recv value) {
	in.depth++
	if in.depth > 8 {
		fail(c.Pos(), "inlining too deep")
	}
	n := &scope{vars: map[string]value{}, cond: append([]lit{}, sc.cond...)}
	if v, ok := sc.vars["#field.router"]; ok {
		n.vars["#field.router"] = v
	}
	if fd.Recv != nil && len(fd.Recv.List) == 1 && len(fd.Recv.List[0].Names) == 1 {
		n.vars[fd.Recv.List[0].Names[0].Name] = value{kind: "recv"}
	}
	var params []string
	for _, f := range fd.Type.Params.List {
		for _, nm := range f.Names {
			params = append(params, nm.Name)
		}
	}
	if len(params) != len(c.Args) {
		fail(c.Pos(), "arity mismatch inlining %s", fd.Name.Name)
	}
	for i, a := range c.Args {
		if v, ok := in.eval(sc, a); ok {
			n.vars[params[i]] = v
		}
	}
	old := in.pkg
	in.pkg = p
	in.block(n, fd.Body.List)
	in.pkg = old
	in.depth--
}

func condName(in *interp, e ast.Expr) (string, bool) {
	// `<verifier param> != nil` is the one condition the theorem fixes to true
	if b, ok := e.(*ast.BinaryExpr); ok && text(b.Y) == "nil" {
		if b.Op == token.NEQ {
			if in.verifier != "" && text(b.X) == in.verifier {
				return "verifier", true
			}
			return text(e), true
		}
		if b.Op == token.EQL {
			if in.verifier != "" && text(b.X) == in.verifier {
				return "verifier", false
			}
			return text(b.X) + " != nil", false
		}
	}
	return text(e), true
}

func (in *interp) block(sc *scope, stmts []ast.Stmt) {
	for _, st := range stmts {
		in.stmt(sc, st)
	}
}

func (in *interp) assign(sc *scope, lhs []ast.Expr, rhs []ast.Expr, pos token.Pos) {
	if len(lhs) == len(rhs) {
		for i := range lhs {
			id, isIdent := lhs[i].(*ast.Ident)
			if v, ok := in.eval(sc, rhs[i]); ok && v.kind != "str" {
				if !isIdent {
					fail(pos, "router value stored somewhere the extractor cannot follow: %s", text(lhs[i]))
				}
				sc.vars[id.Name] = v
				continue
			}
			if v, ok := in.eval(sc, rhs[i]); ok && v.kind == "str" && isIdent {
				sc.vars[id.Name] = v
				continue
			}
			// struct literal storing the engine: `router: router` / `Handler: router`
			if in.mentions(sc, rhs[i]) {
				in.structAlias(sc, rhs[i])
			}
			if isIdent {
				if old, ok := sc.vars[id.Name]; ok && (old.kind == "engine" || old.kind == "group" || old.kind == "auth") {
					fail(pos, "tracked variable %s is reassigned", id.Name)
				}
				// the server value itself: remember it as a receiver alias
				if in.isServerLiteral(rhs[i]) {
					sc.vars[id.Name] = value{kind: "recv"}
				}
			}
		}
		return
	}
	for _, r := range rhs {
		in.mustNotMention(sc, r, "assignment")
	}
}

func (in *interp) isServerLiteral(e ast.Expr) bool {
	if u, ok := e.(*ast.UnaryExpr); ok && u.Op == token.AND {
		e = u.X
	}
	if cl, ok := e.(*ast.CompositeLit); ok {
		return typeName(cl.Type) == "Server"
	}
	return false
}

// structAlias accepts exactly two ways of storing the engine in a struct literal:
// `Handler: router` (http.Server) and `router: router` (the server's own field, later used as X.router)
func (in *interp) structAlias(sc *scope, e ast.Expr) {
	var lit func(x ast.Expr)
	lit = func(x ast.Expr) {
		cl, isLit := stripAddr(x).(*ast.CompositeLit)
		if !isLit {
			fail(x.Pos(), "unsupported expression over the router: %s", text(x))
		}
		for _, el := range cl.Elts {
			if !in.mentions(sc, el) {
				continue
			}
			kv, isKV := el.(*ast.KeyValueExpr)
			if !isKV {
				fail(el.Pos(), "the router is stored positionally in a literal: %s", text(el))
			}
			if !in.mentions(sc, kv.Value) {
				continue // only the key is spelled like a tracked variable
			}
			if _, isInner := stripAddr(kv.Value).(*ast.CompositeLit); isInner {
				lit(kv.Value)
				continue
			}
			v, tracked := in.eval(sc, kv.Value)
			if !tracked || v.kind != "engine" {
				fail(kv.Pos(), "the router is stored in a struct field the extractor cannot follow: %s", text(kv))
			}
			switch text(kv.Key) {
			case "Handler":
			case "router":
				sc.vars["#field.router"] = v
			default:
				fail(kv.Pos(), "the router is stored in a struct field the extractor cannot follow: %s", text(kv))
			}
		}
	}
	lit(e)
}

func stripAddr(e ast.Expr) ast.Expr {
	if u, ok := e.(*ast.UnaryExpr); ok && u.Op == token.AND {
		return u.X
	}
	return e
}

func (in *interp) stmt(sc *scope, st ast.Stmt) {
	switch s := st.(type) {
	case *ast.AssignStmt:
		in.assign(sc, s.Lhs, s.Rhs, s.Pos())
	case *ast.DeclStmt:
		if gd, ok := s.Decl.(*ast.GenDecl); ok {
			for _, sp := range gd.Specs {
				if vs, ok := sp.(*ast.ValueSpec); ok && len(vs.Values) > 0 {
					var lhs []ast.Expr
					for _, n := range vs.Names {
						lhs = append(lhs, n)
					}
					in.assign(sc, lhs, vs.Values, s.Pos())
				}
			}
		}
	case *ast.ExprStmt:
		if c, ok := s.X.(*ast.CallExpr); ok {
			in.call(sc, c)
		} else {
			in.mustNotMention(sc, s.X, "expression")
		}
	case *ast.IfStmt:
		if s.Init != nil {
			in.stmt(sc, s.Init)
		}
		in.mustNotMention(sc, s.Cond, "condition")
		name, pol := condName(in, s.Cond)
		th := sc.child()
		th.cond = append(th.cond, lit{name, pol})
		in.block(th, s.Body.List)
		if s.Else != nil {
			el := sc.child()
			el.cond = append(el.cond, lit{name, !pol})
			switch e := s.Else.(type) {
			case *ast.BlockStmt:
				in.block(el, e.List)
			default:
				in.stmt(el, e)
			}
		}
	case *ast.BlockStmt:
		in.block(sc.child(), s.List)
	case *ast.ReturnStmt:
		// the engine may be returned inside the server value only
		for _, r := range s.Results {
			if v, ok := in.eval(sc, r); ok && (v.kind == "engine" || v.kind == "group") {
				fail(s.Pos(), "router escapes through return")
			}
		}
	default:
		// loops, switches, go/defer statements ...: allowed only when they do not touch the router
		in.mustNotMention(sc, st, "statement")
	}
}

// ---------------------------------------------------------------- servers
func extractServer(repo, rel string) (*interp, *pkgInfo, *scope) {
	p := loadPkg(repo, rel)
	fd := p.findFunc("NewServer", "")
	if fd == nil {
		fail(token.NoPos, "%s: NewServer not found", rel)
	}
	in := &interp{repo: repo, pkg: p}
	for _, f := range fd.Type.Params.List {
		if typeName(f.Type) == "auth.MultiTenantVerifier" {
			if len(f.Names) != 1 {
				fail(f.Pos(), "verifier parameter not unique")
			}
			in.verifier = f.Names[0].Name
		}
	}
	if in.verifier == "" {
		fail(fd.Pos(), "%s: NewServer has no *auth.MultiTenantVerifier parameter", rel)
	}
	sc := &scope{vars: map[string]value{}}
	in.block(sc, fd.Body.List)
	return in, p, sc
}

// addStatusCalls walks server/server.go in source order and inlines every X.adminServer.AddStatus(route, pkg.NewStatus(..))
func addStatusCalls(repo string, in *interp, adminPkg *pkgInfo, sc *scope) {
	path := filepath.Join(repo, "server", "server.go")
	f, err := parser.ParseFile(fset, path, nil, parser.SkipObjectResolution)
	if err != nil {
		fail(token.NoPos, "parse %s: %v", path, err)
	}
	imports := map[string]string{}
	for _, im := range f.Imports {
		p, _ := strconv.Unquote(im.Path.Value)
		if !strings.HasPrefix(p, modulePath) {
			continue
		}
		name := filepath.Base(p)
		if im.Name != nil {
			name = im.Name.Name
		}
		imports[name] = strings.TrimPrefix(p, modulePath)
	}
	fd := adminPkg.findFunc("AddStatus", "Server")
	var walk func(n ast.Node, cond []lit)
	walk = func(n ast.Node, cond []lit) {
		switch s := n.(type) {
		case nil:
			return
		case *ast.IfStmt:
			walk(s.Init, cond)
			name, pol := text(s.Cond), true
			walk(s.Body, append(append([]lit{}, cond...), lit{name, pol}))
			if s.Else != nil {
				walk(s.Else, append(append([]lit{}, cond...), lit{name, !pol}))
			}
			return
		case *ast.CallExpr:
			if sel, ok := s.Fun.(*ast.SelectorExpr); ok && sel.Sel.Name == "AddStatus" && strings.HasSuffix(text(sel.X), "adminServer") {
				if fd == nil {
					fail(s.Pos(), "admin.(*Server).AddStatus not found")
				}
				if len(s.Args) != 2 {
					fail(s.Pos(), "AddStatus arity")
				}
				hc, ok := s.Args[1].(*ast.CallExpr)
				if !ok {
					fail(s.Pos(), "AddStatus handler is not pkg.NewStatus(..): %s", text(s.Args[1]))
				}
				hs, ok := hc.Fun.(*ast.SelectorExpr)
				if !ok || hs.Sel.Name != "NewStatus" || imports[text(hs.X)] == "" {
					fail(s.Pos(), "AddStatus handler is not <piko package>.NewStatus(..): %s", text(s.Args[1]))
				}
				call := sc.child()
				call.cond = append([]lit{}, cond...)
				call.vars["#status"] = value{kind: "status", name: imports[text(hs.X)]}
				// bind: AddStatus(route, handler)
				synth := &ast.CallExpr{Fun: s.Fun, Args: []ast.Expr{s.Args[0], ast.NewIdent("#status")}, Lparen: s.Lparen}
				in.pkg = adminPkg
				in.inlineDecl(call, adminPkg, fd, synth, value{kind: "recv"})
				return
			}
		}
		// generic traversal in source order
		switch s := n.(type) {
		case *ast.File:
			for _, d := range s.Decls {
				walk(d, cond)
			}
		case *ast.FuncDecl:
			if s.Body != nil {
				walk(s.Body, nil)
			}
		case *ast.BlockStmt:
			for _, x := range s.List {
				walk(x, cond)
			}
		default:
			ast.Inspect(n, func(m ast.Node) bool {
				if m == n || m == nil {
					return true
				}
				switch m.(type) {
				case *ast.CallExpr, *ast.IfStmt, *ast.BlockStmt:
					walk(m, cond)
					return false
				}
				return true
			})
		}
	}
	walk(f, nil)
}

// ---------------------------------------------------------------- output
func coqStr(s string) string { return "\"" + strings.ReplaceAll(s, "\"", "\"\"") + "\"" }

func coqStrs(l []string) string {
	var p []string
	for _, s := range l {
		p = append(p, coqStr(s))
	}
	return "[" + strings.Join(p, "; ") + "]"
}

func coqCond(c []lit) string {
	var p []string
	for _, l := range c {
		b := "false"
		if l.Val {
			b = "true"
		}
		p = append(p, "("+coqStr(l.Name)+", "+b+")")
	}
	return "[" + strings.Join(p, "; ") + "]"
}

func coqOps(name string, ops []op) string {
	var b strings.Builder
	fmt.Fprintf(&b, "Definition %s : list regop := [\n", name)
	for i, o := range ops {
		sep := ";"
		if i == len(ops)-1 {
			sep = ""
		}
		switch o.Kind {
		case "use":
			fmt.Fprintf(&b, "  OUse %s %s %s%s  (* %s *)\n", coqCond(o.Cond), coqStr(o.Group), coqStr(o.Mws[0]), sep, o.Pos)
		case "group":
			fmt.Fprintf(&b, "  OGroup %s %s %s %s %s%s  (* %s *)\n", coqCond(o.Cond), coqStr(o.Group), coqStr(o.Parent), coqStr(o.Prefix), coqStrs(o.Mws), sep, o.Pos)
		case "handle":
			fmt.Fprintf(&b, "  OHandle %s %s %s %s %s %s%s  (* %s *)\n", coqCond(o.Cond), coqStr(o.Group), coqStr(o.Method), coqStr(o.Path), coqStrs(o.Mws), coqStr(o.Handler), sep, o.Pos)
		case "noroute":
			fmt.Fprintf(&b, "  ONoRoute %s %s%s  (* %s *)\n", coqCond(o.Cond), coqStrs(o.Mws), sep, o.Pos)
		}
	}
	b.WriteString("].\n")
	return b.String()
}

func main() {
	repo := flag.String("repo", ".", "piko source tree")
	outV := flag.String("v", "", "Coq output file")
	outJ := flag.String("json", "", "JSON output file")
	flag.Parse()
	abs, err := filepath.Abs(*repo)
	if err != nil {
		fail(token.NoPos, "%v", err)
	}
	tables := map[string][]op{}
	for _, srv := range []string{"proxy", "upstream", "admin"} {
		in, p, sc := extractServer(abs, filepath.Join("server", srv))
		if srv == "admin" {
			addStatusCalls(abs, in, p, sc)
		}
		if len(in.ops) == 0 {
			fail(token.NoPos, "%s: no registration found", srv)
		}
		tables[srv] = in.ops
	}
	var b strings.Builder
	b.WriteString("(* GENERATED by /verif/harness/routes/main.go from server/{proxy,upstream,admin}/server.go, server/server.go and the\n")
	b.WriteString("   status handlers of the current source tree. Rewritten by every run of ./check C09 / C10. Do not edit. *)\n")
	b.WriteString("From Coq Require Import List String.\nFrom Piko Require Import Auth.Routes.\nImport ListNotations. Open Scope string_scope. Open Scope list_scope.\n\n")
	for _, srv := range []string{"proxy", "upstream", "admin"} {
		b.WriteString(coqOps(srv+"_ops", tables[srv]))
		b.WriteString("\n")
	}
	if *outV != "" {
		if err := os.WriteFile(*outV, []byte(b.String()), 0o644); err != nil {
			fail(token.NoPos, "%v", err)
		}
	} else {
		fmt.Print(b.String())
	}
	if *outJ != "" {
		j, _ := json.MarshalIndent(tables, "", " ")
		if err := os.WriteFile(*outJ, append(j, '\n'), 0o644); err != nil {
			fail(token.NoPos, "%v", err)
		}
	}
}
