//go:build verif

// Verification harness for pkg/websocket (property C07). Injected into the package with
// `go test -overlay` (never copied into /repo). Drives REAL Conn pairs over loopback: the client side
// comes from the package's own Dial, the server side from a gorilla Upgrader wrapped with New.
// Both directions carry data concurrently; every Conn.Read call is logged (len(buf), n, error class,
// bytes). Error branches are exercised by writing text / close / malformed frames through the
// underlying gorilla connection or its net.Conn.
package websocket

import (
	"bytes"
	"context"
	"encoding/hex"
	"encoding/json"
	"errors"
	"fmt"
	"net"
	"net/http"
	"net/http/httptest"
	"os"
	"sync"
	"testing"
	"time"

	gws "github.com/gorilla/websocket"
)

type vhwsOp struct {
	Op     string `json:"op"` // bin | text | ping | close | closeframe | cut | bad
	N      int    `json:"n"`  // payload size (bin, text); declared frame size (cut)
	M      int    `json:"m"`  // bytes actually sent (cut)
	Closed bool   `json:"closed"`
}

type vhwsDir struct {
	Seed int      `json:"seed"`
	Ops  []vhwsOp `json:"ops"`  // phase 1: concurrently with the other direction
	Tail []vhwsOp `json:"tail"` // phase 2: after both readers have consumed phase 1 (closer side only)
	Bufs []int    `json:"bufs"` // read buffer sizes of the reader of this direction, cycled
}

type vhwsCase struct {
	ID     string     `json:"id"`
	Dirs   [2]vhwsDir `json:"dirs"`   // 0: client -> server, 1: server -> client
	Closer int        `json:"closer"` // side performing its Tail: 0 client, 1 server
	// StallMs > 0: backpressure probe instead of the scripted directions - the client writes StallTotal bytes in 256 KiB
	// writes while the server does not read at all for StallMs, then reads everything
	StallMs    int `json:"stall_ms"`
	StallTotal int `json:"stall_total"`
	// StallClose: while the writer is blocked by the stalled reader (after 500 ms) the writing side calls Close: Close returns
	// promptly and releases the blocked Write
	StallClose bool `json:"stall_close"`
}

type vhwsInput struct {
	Cases []vhwsCase `json:"cases"`
	Par   int        `json:"par"`
}

type vhwsWrite struct {
	Op  string `json:"op"`
	N   int    `json:"n"`
	Ret int    `json:"ret"`
	Err string `json:"err"`
}

type vhwsRead struct {
	B int    `json:"b"`
	N int    `json:"n"`
	E string `json:"e"`
	D string `json:"d"`
}

type vhwsDirOut struct {
	Payload  string      `json:"payload"` // every data byte put on the wire for this direction, in order
	Writes   []vhwsWrite `json:"writes"`
	Reads    []vhwsRead  `json:"reads"`
	Phase1OK bool        `json:"phase1_ok"` // the reader saw all of phase 1 before the barrier expired
}

type vhwsStallOut struct {
	Written  int    `json:"written"`
	WriteErr string `json:"write_err"`
	Read     int    `json:"read"`
	ReadErr  string `json:"read_err"`
	Intact   bool   `json:"intact"`
	Ms       int64  `json:"ms"`
	CloseReturned bool  `json:"close_returned"`
	CloseMs       int64 `json:"close_ms"`
	WriteReleased bool  `json:"write_released"`
}

type vhwsCaseOut struct {
	Stall *vhwsStallOut `json:"stall,omitempty"`
	ID    string        `json:"id"`
	Panic string        `json:"panic"`
	Dirs  [2]vhwsDirOut `json:"dirs"`
}

type vhwsOutput struct {
	Cases []vhwsCaseOut `json:"cases"`
}

func vhwsClass(err error) string {
	if err == nil {
		return "nil"
	}
	if errors.Is(err, net.ErrClosed) {
		return "closed"
	}
	var ce *gws.CloseError
	if errors.As(err, &ce) {
		return "rawclose"
	}
	var ne net.Error
	if errors.As(err, &ne) && ne.Timeout() {
		return "timeout"
	}
	return "other"
}

// payload byte at stream position i of a direction
func vhwsByte(seed int, i int) byte {
	x := (uint32(i) + uint32(seed)*0x9E3779B1) * 0x85EBCA6B
	x ^= x >> 15
	x *= 0xC2B2AE35
	x ^= x >> 16
	return byte(x)
}

func vhwsFill(seed, off, n int) []byte {
	b := make([]byte, n)
	for i := range b {
		b[i] = vhwsByte(seed, off+i)
	}
	return b
}

// a raw websocket frame header (+ payload) as it goes on the wire
func vhwsRawFrame(fromClient bool, fin bool, rsv1 bool, opcode byte, declared int, payload []byte) []byte {
	var b []byte
	b0 := opcode
	if fin {
		b0 |= 0x80
	}
	if rsv1 {
		b0 |= 0x40
	}
	b = append(b, b0)
	mask := byte(0)
	if fromClient {
		mask = 0x80
	}
	switch {
	case declared < 126:
		b = append(b, mask|byte(declared))
	case declared < 65536:
		b = append(b, mask|126, byte(declared>>8), byte(declared))
	default:
		b = append(b, mask|127, 0, 0, 0, 0, byte(declared>>24), byte(declared>>16), byte(declared>>8), byte(declared))
	}
	if fromClient {
		b = append(b, 0, 0, 0, 0) // zero masking key: payload goes out unchanged
	}
	return append(b, payload...)
}

type vhwsSide struct {
	conn     *Conn
	isClient bool
}

func vhwsCountData(ops []vhwsOp) (bytes int, texts int) {
	for _, o := range ops {
		switch o.Op {
		case "bin":
			bytes += o.N
		case "cut":
			bytes += o.M
		case "text":
			texts++
		}
	}
	return
}

// execute the write script of one direction; off is the running data offset
func vhwsDoOps(s vhwsSide, seed int, ops []vhwsOp, off *int, out *vhwsDirOut, payload *[]byte) {
	for _, o := range ops {
		w := vhwsWrite{Op: o.Op, N: o.N, Err: "nil"}
		switch o.Op {
		case "bin":
			b := vhwsFill(seed, *off, o.N)
			*off += o.N
			*payload = append(*payload, b...)
			_ = s.conn.SetWriteDeadline(time.Now().Add(20 * time.Second))
			n, err := s.conn.Write(b)
			w.Ret, w.Err = n, vhwsClass(err)
		case "text":
			b := make([]byte, o.N)
			for i := range b {
				b[i] = 't'
			}
			_ = s.conn.wsConn.SetWriteDeadline(time.Now().Add(20 * time.Second))
			err := s.conn.wsConn.WriteMessage(gws.TextMessage, b)
			w.Err = vhwsClass(err)
		case "ping":
			err := s.conn.wsConn.WriteControl(gws.PingMessage, []byte("p"), time.Now().Add(10*time.Second))
			w.Err = vhwsClass(err)
		case "closeframe":
			err := s.conn.wsConn.WriteControl(gws.CloseMessage,
				gws.FormatCloseMessage(gws.CloseNormalClosure, ""), time.Now().Add(10*time.Second))
			w.Err = vhwsClass(err)
		case "close":
			err := s.conn.Close()
			w.Err = vhwsClass(err)
		case "cut":
			b := vhwsFill(seed, *off, o.M)
			*off += o.M
			*payload = append(*payload, b...)
			nc := s.conn.wsConn.NetConn()
			_ = nc.SetWriteDeadline(time.Now().Add(20 * time.Second))
			if o.Closed {
				// a frame announcing o.N bytes of which only o.M arrive, then the transport goes away
				_, err := nc.Write(vhwsRawFrame(s.isClient, true, false, gws.BinaryMessage, o.N, b))
				w.Err = vhwsClass(err)
				_ = nc.Close()
			} else {
				// a non-final fragment followed by a new data frame instead of a continuation
				_, err := nc.Write(vhwsRawFrame(s.isClient, false, false, gws.BinaryMessage, o.M, b))
				if err == nil {
					_, err = nc.Write(vhwsRawFrame(s.isClient, true, false, gws.BinaryMessage, 1, []byte{0}))
				}
				w.Err = vhwsClass(err)
			}
		case "bad":
			nc := s.conn.wsConn.NetConn()
			_ = nc.SetWriteDeadline(time.Now().Add(20 * time.Second))
			_, err := nc.Write(vhwsRawFrame(s.isClient, true, true, gws.BinaryMessage, 0, nil))
			w.Err = vhwsClass(err)
		default:
			w.Err = "unknown-op"
		}
		out.Writes = append(out.Writes, w)
	}
}

// the reader of one direction. untilPhase1: stop as soon as phase 1 has been consumed (the side that
// will perform the terminal ops does not read after that).
func vhwsExpected(d vhwsDir) []byte {
	var b []byte
	off := 0
	for _, ops := range [][]vhwsOp{d.Ops, d.Tail} {
		for _, o := range ops {
			n := 0
			switch o.Op {
			case "bin":
				n = o.N
			case "cut":
				n = o.M
			}
			b = append(b, vhwsFill(d.Seed, off, n)...)
			off += n
		}
	}
	return b
}

func vhwsReader(c *Conn, d vhwsDir, untilPhase1 bool, out *vhwsDirOut, phase1 chan<- struct{}) {
	expected := vhwsExpected(d)
	p1Bytes, p1Texts := vhwsCountData(d.Ops)
	tBytes, tTexts := vhwsCountData(d.Tail)
	allTexts := p1Texts + tTexts
	maxReads := 4*(p1Bytes+tBytes) + 4*(len(d.Ops)+len(d.Tail)) + 64
	got, others := 0, 0
	signalled := false
	signal := func() {
		if !signalled && got >= p1Bytes && others >= p1Texts {
			signalled = true
			out.Phase1OK = true
			close(phase1)
		}
	}
	defer func() {
		if !signalled {
			close(phase1)
		}
	}()
	signal()
	if untilPhase1 && signalled {
		return
	}
	bufs := d.Bufs
	if len(bufs) == 0 {
		bufs = []int{4096}
	}
	for i := 0; i < maxReads; i++ {
		buf := make([]byte, bufs[i%len(bufs)])
		_ = c.SetReadDeadline(time.Now().Add(10 * time.Second))
		n, err := c.Read(buf)
		cls := vhwsClass(err)
		if n < 0 || n > len(buf) {
			out.Reads = append(out.Reads, vhwsRead{B: len(buf), N: n, E: cls, D: ""})
			return
		}
		out.Reads = append(out.Reads, vhwsRead{B: len(buf), N: n, E: cls, D: hex.EncodeToString(buf[:n])})
		if got+n > len(expected) || !bytes.Equal(buf[:n], expected[got:got+n]) {
			// the stream has already diverged from what was written: nothing more to learn, do not
			// wait for bytes that will never come (the python monitor judges the log, not this test)
			return
		}
		got += n
		switch cls {
		case "nil":
		case "other":
			others++
			if others > allTexts {
				signal()
				return
			}
		default:
			signal()
			return
		}
		signal()
		if untilPhase1 && signalled {
			return
		}
	}
}

// vhwsStall: a slow reader is backpressure, not a failure - every byte still arrives, in order, and no Write fails
func vhwsStall(cli, srv *Conn, stallMs, total int) *vhwsStallOut {
	res := &vhwsStallOut{Intact: true}
	start := time.Now()
	pat := func(off int) byte { return byte((off*131 + off>>8) & 0xff) }
	wdone := make(chan struct{})
	go func() {
		defer close(wdone)
		chunk := 256 * 1024
		for res.Written < total {
			n := chunk
			if total-res.Written < n {
				n = total - res.Written
			}
			b := make([]byte, n)
			for i := range b {
				b[i] = pat(res.Written + i)
			}
			m, err := cli.Write(b)
			res.Written += m
			if err != nil {
				res.WriteErr = err.Error()
				return
			}
		}
		_ = cli.Close()
	}()
	time.Sleep(time.Duration(stallMs) * time.Millisecond)
	buf := make([]byte, 65536)
	for {
		_ = srv.SetReadDeadline(time.Now().Add(20 * time.Second))
		n, err := srv.Read(buf)
		for i := 0; i < n; i++ {
			if buf[i] != pat(res.Read+i) {
				res.Intact = false
			}
		}
		res.Read += n
		if err != nil {
			res.ReadErr = vhwsClass(err)
			break
		}
	}
	select {
	case <-wdone:
	case <-time.After(20 * time.Second):
		res.WriteErr = "writer still blocked 20 s after the reader finished"
	}
	res.Ms = time.Since(start).Milliseconds()
	return res
}

// vhwsStallClose: the reader never reads; the writer blocks in Write; Close on the writing side must come back and unblock it
func vhwsStallClose(cli, srv *Conn, total int) *vhwsStallOut {
	res := &vhwsStallOut{Intact: true}
	wdone := make(chan struct{})
	go func() {
		defer close(wdone)
		chunk := make([]byte, 256*1024)
		for res.Written < total {
			m, err := cli.Write(chunk)
			res.Written += m
			if err != nil {
				res.WriteErr = err.Error()
				return
			}
		}
	}()
	time.Sleep(500 * time.Millisecond) // the socket buffers are full by now, the writer is blocked
	cdone := make(chan struct{})
	t0 := time.Now()
	go func() { _ = cli.Close(); close(cdone) }()
	select {
	case <-cdone:
		res.CloseReturned = true
	case <-time.After(4 * time.Second):
	}
	res.CloseMs = time.Since(t0).Milliseconds()
	select {
	case <-wdone:
		res.WriteReleased = true
	case <-time.After(4 * time.Second):
	}
	_ = srv.Close()
	return res
}

func vhwsRunCase(c vhwsCase) (out vhwsCaseOut) {
	out.ID = c.ID
	for d := 0; d < 2; d++ {
		out.Dirs[d].Reads = []vhwsRead{}
		out.Dirs[d].Writes = []vhwsWrite{}
	}
	defer func() {
		if r := recover(); r != nil {
			out.Panic = fmt.Sprint(r)
		}
	}()
	srvCh := make(chan *Conn, 1)
	upgrader := gws.Upgrader{}
	srv := httptest.NewServer(http.HandlerFunc(func(w http.ResponseWriter, r *http.Request) {
		wc, err := upgrader.Upgrade(w, r, nil)
		if err != nil {
			return
		}
		srvCh <- New(wc)
	}))
	defer srv.Close()

	ctx, cancel := context.WithTimeout(context.Background(), 20*time.Second)
	defer cancel()
	cli, err := Dial(ctx, "ws"+srv.URL[len("http"):]+"/")
	if err != nil {
		out.Panic = "dial: " + err.Error()
		return
	}
	defer cli.Close()
	var sconn *Conn
	select {
	case sconn = <-srvCh:
	case <-time.After(20 * time.Second):
		out.Panic = "server side of the connection did not appear"
		return
	}
	defer sconn.Close()

	if c.StallMs > 0 {
		if c.StallClose {
			out.Stall = vhwsStallClose(cli, sconn, c.StallTotal)
			return
		}
		out.Stall = vhwsStall(cli, sconn, c.StallMs, c.StallTotal)
		return
	}

	sides := [2]vhwsSide{{conn: cli, isClient: true}, {conn: sconn, isClient: false}}
	// direction d is written by side d and read by side 1-d
	var phase1 [2]chan struct{}
	var wg sync.WaitGroup
	var payload [2][]byte
	var offs [2]int
	var wdone [2]chan struct{}
	var panics [4]string
	for d := 0; d < 2; d++ {
		phase1[d] = make(chan struct{})
		wdone[d] = make(chan struct{})
	}
	for d := 0; d < 2; d++ {
		d := d
		wg.Add(2)
		go func() { // reader of direction d = side 1-d
			defer wg.Done()
			defer func() {
				if r := recover(); r != nil {
					panics[d] = fmt.Sprint(r)
				}
			}()
			vhwsReader(sides[1-d].conn, c.Dirs[d], (1-d) == c.Closer, &out.Dirs[d], phase1[d])
		}()
		go func() { // writer of direction d = side d
			defer wg.Done()
			defer close(wdone[d])
			defer func() {
				if r := recover(); r != nil {
					panics[2+d] = fmt.Sprint(r)
				}
			}()
			vhwsDoOps(sides[d], c.Dirs[d].Seed, c.Dirs[d].Ops, &offs[d], &out.Dirs[d], &payload[d])
		}()
	}
	// barrier: both phase-1 streams consumed (or given up), both phase-1 writers done
	deadline := time.After(12 * time.Second)
	for d := 0; d < 2; d++ {
		select {
		case <-phase1[d]:
		case <-deadline:
		}
	}
	for d := 0; d < 2; d++ {
		select {
		case <-wdone[d]:
		case <-time.After(25 * time.Second):
		}
	}
	// phase 2: the closer performs its tail
	cl := c.Closer
	func() {
		defer func() {
			if r := recover(); r != nil {
				panics[2+cl] = fmt.Sprint(r)
			}
		}()
		select {
		case <-wdone[cl]:
			vhwsDoOps(sides[cl], c.Dirs[cl].Seed, c.Dirs[cl].Tail, &offs[cl], &out.Dirs[cl], &payload[cl])
		default:
		}
	}()
	// readers stop at a terminal error or their read deadline; never wait forever
	fin := make(chan struct{})
	go func() { wg.Wait(); close(fin) }()
	select {
	case <-fin:
	case <-time.After(30 * time.Second):
		out.Panic = "watchdog: readers/writers did not finish"
		cli.Close()
		sconn.Close()
		<-fin
	}
	for _, p := range panics {
		if p != "" {
			out.Panic = p
		}
	}
	for d := 0; d < 2; d++ {
		out.Dirs[d].Payload = hex.EncodeToString(payload[d])
	}
	return out
}

func TestVerifHarness_WS(t *testing.T) {
	inPath := os.Getenv("VERIF_IN")
	if inPath == "" {
		t.Skip("VERIF_IN not set")
	}
	raw, err := os.ReadFile(inPath)
	if err != nil {
		t.Fatal(err)
	}
	var in vhwsInput
	if err := json.Unmarshal(raw, &in); err != nil {
		t.Fatal(err)
	}
	par := in.Par
	if par <= 0 {
		par = 8
	}
	outs := make([]vhwsCaseOut, len(in.Cases))
	sem := make(chan struct{}, par)
	var wg sync.WaitGroup
	for i := range in.Cases {
		i := i
		wg.Add(1)
		sem <- struct{}{}
		go func() {
			defer wg.Done()
			defer func() { <-sem }()
			outs[i] = vhwsRunCase(in.Cases[i])
		}()
	}
	wg.Wait()
	b, err := json.Marshal(vhwsOutput{Cases: outs})
	if err != nil {
		t.Fatal(err)
	}
	if err := os.WriteFile(os.Getenv("VERIF_OUT"), b, 0o644); err != nil {
		t.Fatal(err)
	}
}
