#!/bin/sh
# Offline setup after a fresh restore: build the Coq development (full .vo build) and warm the Go build
# cache by compiling every harness binary once.
set -e
cd "$(dirname "$0")"
export GOFLAGS=-mod=mod GOPROXY=off
mkdir -p work evidence
./coq/gen_project.sh
(cd coq && timeout 3000 make -k -j16 >/dev/null 2>../work/coq_setup.log || { tail -30 ../work/coq_setup.log; exit 1; })
python3 - <<'PY'
import sys
sys.path.insert(0, '.')
from lib.common import *
for pkg in harness_pkgs():
    try:
        build_harness(pkg)
    except Exception as e:
        print("warning: harness build failed:", pkg, str(e)[:500])
PY
echo setup ok
