#!/usr/bin/env python3
"""Regenerates MANIFEST.json from the props/ modules (each carries its own META)."""
import importlib, json, os, sys
sys.path.insert(0, os.path.dirname(os.path.abspath(__file__)))
ROOT = os.path.dirname(os.path.abspath(__file__))
ids = [json.loads(l)["id"] for l in open(os.path.join(ROOT, "properties.jsonl"))]
checks, na = [], []
for pid in ids:
    if not os.path.exists(os.path.join(ROOT, "props", pid + ".py")):
        na.append({"property_id": pid, "reason": "check not built yet in this round (planned, see DESIGN.md section 5); not a claim that the technique cannot apply"})
        continue
    mod = importlib.import_module("props." + pid)
    meta = getattr(mod, "META", {})
    checks.append({
        "property_id": pid,
        "quick_cmd": "./check %s --tier quick" % pid,
        "thorough_cmd": "./check %s --tier thorough" % pid,
        "evidence_file": "/verif/evidence/%s.json" % pid,
        "replay_cmd_template": "./check %s --replay {path}" % pid,
        "engine": "coq-model+correspondence",
        "level_claimed": {"category": "proof", "text": meta.get("text", ""), "design_ref": "DESIGN.md section 5, " + pid},
        "level_note": meta.get("note", ""),
        "technique": meta.get("technique", "machine-checked proof in Coq 8.16 of a hand-written Gallina model + differential correspondence check against the Go implementation"),
    })
man = {
    "version": 1,
    "setup_cmd": "./setup.sh",
    "hooks": {
        "guard": "verif",
        "enable": "go test -tags verif -overlay work/bin/<pkg>.overlay.json (harness files live under /verif/harness and are injected with -overlay; nothing is added to /repo)",
        "baseline_off_cmd": "cd /repo && GOFLAGS=-mod=mod GOPROXY=off go test -vet=off -count=1 ./...",
        "source_commits": [],
        "add_only": True,
    },
    "engines": [{"name": "coq-model+correspondence", "path": "/verif/check",
                 "serves_properties": [c["property_id"] for c in checks],
                 "kind_free_text": "Coq 8.16.1 theorems over executable Gallina models (coq/), tied to /repo's current tree by in-package Go harnesses (harness/, go test -overlay) whose recorded histories are re-executed by the model inside Coq (vm_compute) and by independent python monitors"}],
    "checks": checks,
    "not_applicable": na,
    "notes": "Models are hand written; every run rebuilds the harness from /repo's working tree, replays corpus + generated histories on implementation and model, and re-checks Properties/<id>.v with Print Assumptions. Known findings: KNOWN_FINDINGS.txt.",
}
json.dump(man, open(os.path.join(ROOT, "MANIFEST.json"), "w"), indent=1)
print("checks:", [c["property_id"] for c in checks], "na:", [n["property_id"] for n in na])
