#!/usr/bin/env python3
"""tools/try_mutation.py <patch.diff> <demo_test.go> <check ids...>
1. confirms the mutation in a scratch worktree: it builds, the existing suite passes, the demo fails with the
   change and passes without it;
2. applies it to /repo, runs the given checks (quick), and restores /repo.
Prints one JSON line with the outcome."""
import json, os, re, subprocess, sys, shutil, time

ENV = dict(os.environ, GOFLAGS="-mod=mod", GOPROXY="off")
ENV.pop("GOTOOLCHAIN", None)


def sh(cmd, cwd=None, timeout=3600):
    p = subprocess.run(cmd, cwd=cwd, shell=True, env=ENV, stdout=subprocess.PIPE, stderr=subprocess.STDOUT, text=True, timeout=timeout)
    return p.returncode, p.stdout


def main():
    patch, demo = os.path.abspath(sys.argv[1]), os.path.abspath(sys.argv[2])
    args = sys.argv[3:]
    name = agent_meta = None
    if args and args[0].startswith("--name="):
        name = args.pop(0)[7:]
    if args and args[0].startswith("--meta="):
        agent_meta = args.pop(0)[7:]
    confirm_only = use_confirm = None
    race = ""
    if args and args[0] == "--race":
        args.pop(0)
        race = "-race "
    if args and args[0] == "--confirm-only":
        confirm_only = args.pop(0)
    if args and args[0].startswith("--use-confirm="):
        use_confirm = args.pop(0)[14:]
    checks = args
    res = {"patch": patch, "demo": demo}
    if use_confirm:
        res.update(json.load(open(use_confirm)))
        return phase2(res, patch, demo, name, agent_meta, checks)
    wt = "/tmp/confirm-%d" % os.getpid()
    sh("git -C /repo worktree add -f --detach %s HEAD" % wt)
    try:
        first = open(demo).readline()
        m = re.search(r"place in:\s*(\S+)", first)
        if not m:
            txt = open(demo).read()
            mm = re.search(r"^package\s+(\w+)", txt, flags=re.M)
            raise SystemExit("demo has no 'place in:' header (package %s)" % (mm.group(1) if mm else "?"))
        pkgdir = m.group(1).strip("/")
        dst = os.path.join(wt, pkgdir, "zz_demo_test.go")
        shutil.copy(demo, dst)
        run = re.findall(r"^func (Test\w+)\(", open(demo).read(), flags=re.M)
        runre = "^(%s)$" % "|".join(run)
        rc0, out0 = sh("go test %s-vet=off -count=1 -run '%s' ./%s" % (race, runre, pkgdir), cwd=wt)
        res["demo_passes_without"] = rc0 == 0
        rc, out = sh("git apply %s" % patch, cwd=wt)
        if rc != 0:
            res["error"] = "patch does not apply: " + out[-500:]
            print(json.dumps(res)); return 1
        rc1, out1 = sh("go test %s-vet=off -count=1 -run '%s' ./%s" % (race, runre, pkgdir), cwd=wt)
        res["demo_fails_with"] = rc1 != 0
        os.remove(dst)
        rcb, outb = sh("go build ./... && go test -vet=off -count=1 ./...", cwd=wt)
        res["suite_passes_with"] = rcb == 0
        if rcb != 0:
            res["suite_log"] = outb[-1500:]
    finally:
        sh("git -C /repo worktree remove --force %s" % wt)
    if confirm_only:
        print(json.dumps(res)); return 0
    return phase2(res, patch, demo, name, agent_meta, checks)


def phase2(res, patch, demo, name, agent_meta, checks):
    if not (res.get("demo_passes_without") and res.get("demo_fails_with") and res.get("suite_passes_with")):
        print(json.dumps(res)); return 1
    # run the checks against /repo with the mutation applied
    rc, out = sh("git -C /repo status --porcelain")
    if out.strip():
        raise SystemExit("/repo is not clean: " + out)
    rc, out = sh("git -C /repo apply %s" % patch)
    res["checks"] = {}
    try:
        for c in checks:
            t0 = time.time()
            cid, _, tier = c.partition(":")
            rc, out = sh("./check %s --tier %s" % (cid, tier or "quick"), cwd="/verif", timeout=7200)
            viol = [l for l in out.split("\n") if l.startswith("VIOLATION")]
            res["checks"][c] = {"exit": rc, "violations": viol[:3], "wall": round(time.time() - t0, 1),
                                "tail": [l for l in out.split("\n") if l.startswith("[violation]")][:2]}
    finally:
        sh("git -C /repo checkout -- .")
        rc, out = sh("git -C /repo status --porcelain")
        res["repo_clean_after"] = not out.strip()
    print(json.dumps(res, indent=1))
    if name:
        seed(name, patch, demo, agent_meta, res)
    return 0


def seed(name, patch, demo, agent_meta, res):
    """keep a confirmed change as /verif/seeded/<name>/"""
    d = "/verif/seeded/" + name
    os.makedirs(d, exist_ok=True)
    shutil.copy(patch, d + "/patch.diff")
    shutil.copy(demo, d + "/demo_test.go")
    am = {}
    if agent_meta and os.path.exists(agent_meta):
        try:
            am = json.load(open(agent_meta))
        except Exception as e:
            am = {"unparsed": open(agent_meta).read()[:4000]}
    meta = {"property": name.split("-")[0], "from_author": am,
            "confirmed": {k: res.get(k) for k in ("demo_passes_without", "demo_fails_with", "suite_passes_with")},
            "what_i_ran": ["scratch worktree of /repo HEAD: demo without the change (go test -vet=off -count=1 -run <demo>), "
                           "git apply patch.diff, demo again, go build ./... && go test -vet=off -count=1 ./...",
                           "git -C /repo apply patch.diff; " + "; ".join("./check %s --tier %s" % (c.partition(":")[0], c.partition(":")[2] or "quick") for c in res.get("checks", {}))
                           + "; git -C /repo checkout -- ."],
            "checks": res.get("checks", {}), "repo_clean_after": res.get("repo_clean_after")}
    json.dump(meta, open(d + "/meta.json", "w"), indent=1)


if __name__ == "__main__":
    sys.exit(main())
