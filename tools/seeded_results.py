#!/usr/bin/env python3
"""writes seeded/RESULTS.md from seeded/*/meta.json (what tools/try_mutation.py recorded) plus the notes below"""
import glob, json, os

NOTES = {   # what happened on the FIRST trial of a change, and what was strengthened because of it
    "C02-1": "first trial: MISSED by C02 (no random history delivered a stale delta after the owner's compaction). Added the parked-packet generator (whole exchanges whose delta replies are delivered as a copy and again later) and the corpus witness corpus-stale-compact; coverage counter stale_entries_for_purged_keys in evidence.",
    "C11-2": "first trial: caught only as model/implementation disagreement. Monitor rule relearn-left (causal origin of in-flight packets) + membership-episode generator (leave/crash, partial notification, skewed expiry) + corpus-left-relearn.",
    "C13-1": "first trial: the check crashed on the malformed packet (KeyError) and reported check-internal-error. Monitor hardened (emit-decode signature), codec sweep reports the size/prefix failure with the content and max.",
    "C13-2": "first trial: the harness process died (make() of 2^40 entries) and the check reported an internal error. run_world / the raw hostile mode now bisect a process crash down to the history / datagram that causes it and report it as the failing input.",
    "C03-1": "first trial: caught only as disagreement on the G1 corpus item. The convergence phase rarely cut a delta; added a backlog of mixed-size entries per node and packet sizes down to 215; evidence counts the deltas cut in the convergence phase.",
    "C16-1": "first trial: MISSED by C16 (tokens expired within 1.3 s, so the leaked connection closed by itself before the 5 s quiescence window). Far expiries (60 s) in corpus and generator: shutdown / shedding must end the connection, not the deadline.",
    "C16-2": "C16 (sequential scenarios) and C05's concurrent mode did not hit the interleaving in their quick runs; C20's stress harness does (same lock-release change as C20-1).",
    "C10-2": "first trial: MISSED by C10. Forged HS256 token signed with the zero-length secret added to the wired (Config.Load) tenant deployment.",
    "C09-1": "first trial: caught only as disagreement. Same forged-token kind is now always sent to every wired port / tenant whose configuration has no HMAC secret.",
    "C08-1": "first trial: caught only as disagreement. Connection split over several field lines in websocket upgrades (corpus + generator) and monitor rule ws-upgrade-lost.",
    "C08-2": "first trial: MISSED (the harness always disabled the access log and used no header lists). Access-log configuration is now a dimension of every cluster; this exposed the genuine defect L1 in the unchanged tree (fixed: 90804ea). The change was rebased onto the fixed tree (patch2b).",
    "C01-2": "first trial: caught only as disagreement. Settled views now also remember departed (left/unreachable) nodes; monitor signature settled.",
    "C15-2": "first trial: caught only as disagreement on the cursor. Proved the sharper bound C15_no_starvation_churn (the coarse bound does not exclude this change: C15_reset_variant_refuted) and added the churn monitor + flapping corpus.",
    "C14-2": "caught in the first batch, missed after the generator changed (it needs unreachable-then-left); membership episodes now produce that sequence in every run.",
    "C06-2": "a defect of the balancer (loadBalancer.Remove) with a routing symptom: C06's clusters use scripted upstream sets and do not go through go-away double removal; C05 and C15 decide it.",
    "C18-1": "first trial: MISSED by C18 (single-loss scenarios only: the leaver never remembered an earlier departure). Scenarios now include a fourth node that left or crashed before the loss; notified-not-left counts as recorded-state evidence when Shutdown returned without any timeout (the failure depends on the shuffle of the leaver's peers).",
    "C18-2": "first trial: MISSED by C18 (with two survivors everybody is notified directly), C03/C11 only disagreed. C18 got a six-node scenario (Leave notifies four of five peers, the fifth must end as left, not unreachable) and the rule rest-not-following; C03's convergence phase now removes nodes that left from the rounds, so their final state has to reach everybody through relays, and counts them in the verdict.",
    "C08-3": "round 2. First trial: C08 only disagreed on the corpus (C01 reports the wrong endpoint).",
    "C08-4": "round 2. First trial: MISSED (no client of the harness ever half-closed). Clients that shut down their sending side while the upstream takes its time are now part of the corpus and the generator (environment faults: monitor only, left out of the Coq comparison).",
    "C13-3": "round 2. First trial: MISSED (every stream peer of the harness read the reply). The hostile mode now has a peer that sends a valid join (built with the real encoder) and never reads: the handler has to give up at its stream timeout.",
    "C14-3": "round 2. First trial: MISSED (sequential histories only). Concurrency probe race_expire: a node re-learned from digests/deltas on two goroutines while a third suspects and expires it; the recorded notifications must still fold to the final state (they did not: join of an already announced node).",
    "C16-3": "round 2. First trial: MISSED (no tenant verifier in the harness). Multi-tenant scenarios: the token's expiry must survive MultiTenantVerifier.",
    "C17-3": "round 2. First trial: MISSED by C17 (sequential), reported by C20's stress harness. Concurrency probe race_compact: fresh keys written while another goroutine deletes a scratch key and compacts; every one of them must be live afterwards.",
    "C15-3": "round 2. First trial: MISSED by C15 (its concurrent mode compared only the quiescent registry), C20's race build reported the data race. Selection storms: 6 goroutines x 12000 selections over a stable set must be one global rotation (totals differ by at most 1) - under the read lock the selector indexed out of range.",
    "C11-4": "round 2. The syncer promoting a pending node as Active although gossip holds it unreachable: C04 (routing status mirrors the membership flags) decides it; C11's monitor watches the gossip layer, where nothing changes.",
    "C18-3": "round 2. The same mechanism as C16-1 seen from C18 (a node shutting down keeps expiring-token upstreams): C16 decides it; C18's clusters run without authentication.",
    "C05-1": "C20: the regenerated lock-edge table no longer satisfies the lock-order proof (the translator half of the tie), and the stress harness shows the stale advertisement.",
    "C01-5": "round 3. First trial: MISSED by C01 (the proxy clusters inject routing views directly). The syncer turning gossip keys into endpoint ids is C04's subject: its endpoint ids now include letters of the key prefix and the separator (e, nt:e, a:b), C04 reports it.",
    "C01-6": "round 3. First trial: MISSED everywhere (no check ran Gossip.gossipRound). New peer-selection probe on the real gossipRound (C03, C11): 200 rounds must reach every live and every unreachable peer.",
    "C02-5": "round 3. First trial: MISSED (deliveries called handlePacket directly). New receive-loop probe: all datagrams in flight to a node are read back to back by a real packetListener.Serve from a queue; state and replies must equal one-at-a-time delivery of the same datagrams (C02, C03), and the same histories run under the race detector (C20).",
    "C02-6": "round 3. MISSED by C02 (its monitor is about key/value state); C11's stale-expiry rule reports it.",
    "C03-5": "round 3. Same change as C02-5 seen from C03: receive-loop probe.",
    "C03-6": "round 3. First trial: caught only as disagreement (packet bytes). New heartbeat probe: a digest exchange that completes without loss must tell both failure detectors, also when neither side has anything new.",
    "C04-5": "round 3. First trial: MISSED (endpoint ids e, f, e1, E). Ids with ':' and with letters of 'endpoint:' added.",
    "C04-6": "round 3. First trial: caught only as disagreement (pending nodes); monitor failures after an expiry were all attributed to finding F3. F3 is now recognised by its hole in the gossip view; rediscovery witness (learn, expire, owner changes and compacts, learn again) and expiry in a fifth of the random histories.",
    "C05-6": "round 3. First trial: MISSED (ASCII endpoint ids). An id that is not UTF-8 (and has a colon) is now among the endpoint names of the upstream harness.",
    "C06-5": "round 3. First trial: MISSED (every scripted upstream closed after one response and upstream sets never changed inside a cluster). Upstreams now speak keep-alive; clusters whose upstreams connect, disconnect, announce go-away or fail one dial BETWEEN requests run as one continuous cluster and are compared with the model phase by phase (corpus-dyn-reconnect, -twins, -goaway, -flaky + random).",
    "C06-6": "round 3. First trial: MISSED (no go-away upstream in the proxy clusters). Scenario goaway: a forwarded request meets a go-away upstream - 502, never a second hop.",
    "C07-5": "round 3. First trial: MISSED (writes of at most 256 KiB, exactly the new limit). Single writes of 262145, 300000 and 1 MiB in the ws corpus and the tunnel scenarios.",
    "C07-6": "round 3. First trial: MISSED. Backpressure probe (reader pauses 1.5 s in the quick tier, 11 s in the thorough tier, 8/16 MiB outstanding): reported by the thorough tier only - it needs a 10 s stall.",
    "C08-6": "round 3. MISSED: needs more concurrent in-flight requests through one agent than its idle-pool size; the proxy harness issues the requests of a cluster one after the other. Not covered (see DESIGN 9).",
    "C10-5": "round 3. First trial: MISSED by C10 (its servers use a recording manager, no real upstream connections). The twins scenario of the proxy harness (endpoint ids t, t:80, T, t:) makes C01 report the wrong endpoint; C10 still does not see it.",
    "C11-5": "round 3. First trial: caught only as disagreement. Rule left-not-learned (an observer that has caught up with a departed node holds it as left) + witness leave-then-compact + compaction after leave in the membership episodes.",
    "C11-6": "round 3. First trial: MISSED by C11 (scripted detector), reported by C12. The real accrual detector now runs inside the real cluster state behind a virtual clock (silence, recovery, expiry): monitor rules from the property text + world-model comparison with the real verdicts; new theorems C11_silent_stays_unreachable / C11_heard_is_reachable / C12_silent_eventually_unreachable (Compose/LiveFD.v).",
    "C12-6": "round 3. First trial: MISSED (C12 drove the detector alone, C11 scripted it). Same machinery as C11-6: restored-unheard.",
    "C15-5": "round 3. Same change as C01-5 seen from C15 (stale remote entry keeps being selected): C04 reports it.",
    "C15-6": "round 3. First trial: MISSED (C15 drives the manager, the removal is in the HTTP proxy). Scenario flaky (one failed dial of a connected upstream) + C01 rule local-available; C01 and C06 report it.",
    "C16-5": "round 3. First trial: MISSED (every server shutdown had 3 s and nothing half-open). Straggler: a half-open connection on the upstream port and a 150-300 ms grace period.",
    "C16-6": "round 3. First trial: MISSED (client listeners never lost the server). Front with blackout/restore in the lifecycle harness: listeners closed while the server is unreachable must not come back.",
    "C17-6": "round 3. First trial: MISSED (at most 11 keys). Bulk histories (130-260 keys, deletes, compaction, join stream and datagram exchanges) in C02 and, with a sync monitor, in C17.",
    "C18-6": "round 3. First trial: MISSED (in-flight requests of 200 ms). Scenario graceful-long-inflight (3 s requests through the departing node) + rule withdrawal-waits-for-drain.",
    "C19-5": "round 3. Same parsing slip as C04-5 seen from C19 (under-counted remote connections): C04 reports it; C19's clusters inject the remote counts directly.",
    "C19-6": "round 3. Same change as C02-6 seen from C19: C11 reports it.",
    "C20-5": "round 3. First trial: MISSED (the stress run's loopback gossip rarely queues two datagrams). The receive-loop histories now also run in a race-detector build.",
    "C01-7": "round 4. First trial: MISSED (every harness ran plaintext clusters). TLS clusters added afterwards: every proxy port with its own certificate valid for its own loopback address, one client configuration per node; the entry node forwards to several different peers.",
    "C01-8": "round 4. First trial: MISSED (no proxy harness cluster verified tokens). Clusters whose proxy ports verify tokens (Authorization and x-piko-authorization), requests entering at a node without the upstream: the token has to survive the inter-node hop (monitor token-refused).",
    "C02-8": "round 4. NOT COVERED: needs the application to write the protocol's reserved key _internal:compact through the gossip API; piko's server never does, and on the unchanged tree such a write already clashes with the marker (DESIGN 9 i).",
    "C03-7": "round 4. First trial: caught only as disagreement (packet bytes). Rediscovery probe: a live node that a peer suspected and expired completes two digest exchanges with that peer and must be known again.",
    "C04-8": "round 4. First trial: MISSED. Endpoint id ending in _addr added to the syncer's endpoint ids.",
    "C05-8": "round 4. MISSED by C05 (the upstream harness does not compact the gossip state); C17's compaction probes report it.",
    "C06-7": "round 4. Same change as C01-8 seen from C06: token clusters.",
    "C06-8": "round 4. A balancer defect (cursor wrap before the removal): C15's balancer histories report the out-of-range panic; C06's clusters have one upstream per endpoint and node.",
    "C07-7": "round 4. First trial: MISSED. Thorough tier only (it needs a consumer that is more than 5 s late after the writer closed): slow-consumer tunnel scenarios (7 s).",
    "C08-8": "round 4. Same family as C01-8 (token stripped before the hop), reported by the token clusters.",
    "C09-7": "round 4. First trial: MISSED (no wired deployment combined a key set with audience/issuer). Wired layout: the same JWKS keys guard three ports that differ only in audience and issuer.",
    "C09-8": "round 4. NOT COVERED: needs a remote (http) JWKS endpoint whose content changes over time and the cache TTL to pass (key revocation); the harness serves static file:// key sets.",
    "C10-8": "round 4. First trial: MISSED by C10 (C09's tenants-only wired layout reports it). Wired tenants-only deployment added to C10.",
    "C11-7": "round 4. First trial: caught only as disagreement. Rule leave-keeps-old-deadline: learning of the departure of a node held as unreachable restarts the expiry period.",
    "C13-7": "round 4. First trial: MISSED. The receive-loop probe now also sizes the read buffer to the largest datagram of the burst (a datagram that fills the buffer exactly is legitimate) and runs in C13.",
    "C13-8": "round 4. First trial: MISSED. A valid join request cut at every byte offset: a rejected request is not applied in part.",
    "C14-7": "round 4. First trial: caught only as disagreement (events). Corpus history empty-value-after-delete.",
    "C15-7": "round 4. First trial: MISSED (at most 6 upstreams per endpoint). Scale-down histories: 40-70 upstreams connect, most disconnect, the survivors are still selected in turn.",
    "C15-8": "round 4. The TCP route's forwarded check: C06's clusters report the loop (13 handler invocations); C15 drives the manager directly.",
    "C16-7": "round 4. First trial: MISSED (verifier configurations were built by hand). via_load: the configuration goes through the real auth.Config.Load, with a plain secret and with a JWKS key set.",
    "C16-8": "round 4. Thorough tier only (the server's keep-alive needs 40 s to notice): blackhole op - the network path goes silent, nothing is closed.",
    "C17-8": "round 4. MISSED by C17's quick tier (its bulk histories reach the situation only sometimes); C02's V4 rule reports it.",
    "C18-7": "round 4. First trial: MISSED. Scenario graceful-grace-exhausted (a 3 s request entering at the departing node outlasts a 0.8 s grace period): the departure is still announced.",
    "C18-8": "round 4. First trial: MISSED (rebalancing was never enabled). Scenario graceful-rebalance-enabled: shutdown terminates with the rebalance loop running.",
    "C19-7": "round 4. First trial: MISSED (averages up to 200). Corpus configurations with shed rate 0 / 0.005 and averages above 200.",
    "C19-8": "round 4. First trial: MISSED. The configuration `piko server` starts from (Default(), flags registered, empty command line) is compared with Default().",
    "C01-9": "round 5. First trial: MISSED. Endpoint ids with a literal '%' on the TCP route (the client escapes once, the node decodes once): cluster corpus-percent, monitor only (the model's path grammar has no escapes).",
    "C01-10": "round 5. MISSED by C01 (its clusters inject addresses); C18's harness runs the real server.NewServer: the address a node advertises for a given bind address is compared with the bind address (IPv6 literals keep their brackets).",
    "C02-9": "round 5. First trial: caught only as disagreement (the dropped empty key was never followed by a later entry in the same delta). Corpus history empty-key; finding F3's signature in C02 narrowed to V3 holes.",
    "C03-10": "round 5. First trial: MISSED by C03 (C13's codec sweep reports that the real decoder rejects an emitted packet). Corpus history with 450 outstanding tiny entries and 400-byte datagrams.",
    "C06-10": "round 5. First trial: MISSED. A node that reads the whole forwarded request and then resets the connection; rule: one inter-node request per client request (deliveries to resetting nodes are counted).",
    "C07-9": "round 5. First trial: MISSED. Close() while a Write is blocked by a stalled reader must return and release the Write.",
    "C07-10": "round 5. First trial: MISSED (connections were opened one after the other). 24 clients connect at the same moment to an echoing upstream end through every kind of exit.",
    "C08-9": "round 5. NOT COVERED: needs more than 256 concurrent stream opens on one upstream connection whose accept loop is behind (yamux accept backlog); the proxy harness uses scripted upstreams without yamux.",
    "C08-10": "round 5. First trial: MISSED. A client-sent x-piko-forward: true in the timeout clusters: the timeout still applies at the serving node.",
    "C09-9": "round 5. Reported by the route extractor failing closed (the router stored in a struct field it cannot follow); no request-level failing input from the check.",
    "C09-10": "round 5. First trial: MISSED (GET/POST/PUT/DELETE/PATCH only). OPTIONS and PURGE added to the method variants on every port.",
    "C10-9": "round 5. First trial: caught only as disagreement (an authorised token refused is not a safety violation). Rule: a valid token that lists no endpoints, or lists the named one, is not refused with 'endpoint not permitted'.",
    "C13-10": "round 5. First trial: MISSED. Stream peers that send nothing / one byte / the preamble and then stay silent without closing: the handler gives up at its stream timeout.",
    "C16-10": "round 5. NOT COVERED: needs a token that expires within microseconds of its verification (between the verifier and the arming of the deadline).",
    "C18-9": "round 5. First trial: MISSED (refused reconnections were reset). The front can also accept, read the request and close cleanly (what a layer-4 balancer does).",
    "C18-10": "round 5. NOT COVERED: needs the grace period used up by the drain AND a peer that accepts the leave connection without ever answering it; the scenarios have the former only.",
    'C01-11': 'round 6. Keep-alive pooling of inter-node / upstream connections keyed by the endpoint id (the mechanism of C06-5): reported by the dynamic clusters and the twins scenario.',
    'C02-11': "round 6. `omitempty` on the entries of a delta part + the join reply decoded into the variable that still holds the joiner's own delta.",
    'C02-12': "round 6. 'Fill the packet': an entry that does not fit is skipped and later, smaller ones are still packed (written independently by FIVE authors: also C03, C04-11, C17). First trial: C03 only disagreed; the bulk-pull probe (300-4200 entries of mixed sizes, hole check after every round) now gives C02, C03, C13 and C17 the failing input.",
    'C03-12': 'round 6. Delta capped at 256 entries BEFORE the sort by version (cf. C13-12 with 1024).',
    'C04-11': 'round 6. Same change as C02-12 seen from C04.',
    'C04-12': 'round 6. Pending nodes stored by value: status changes of a pending node are lost. First trial: the syncer harness no longer COMPILED (it ranged over the map of pointers) and only the broken tie was reported. The harness now reads the pending nodes through reflection; C04 reports the history.',
    'C05-11': "round 6. Manager mutex released before the cluster is told (written independently by five authors: also C01, C16-12, C20). C05's concurrent mode and C20's stress run report it; since this round C20 also proves on the regenerated per-function lock facts that AddConn/RemoveConn publish under the manager's mutex (C20_registry_changes_publish_under_manager_lock).",
    'C05-12': 'round 6. Select prunes upstreams whose session has closed without deregistering them. First trial: MISSED (the upstream harness used fake upstream objects, the change type-asserts *ConnUpstream). The harness now registers real ConnUpstreams over yamux and has connections that die before their handler deregisters them (op sever).',
    'C06-11': 'round 6. Retry on a go-away upstream re-selects with allowRemote=true for an already forwarded request (also written for C15).',
    'C06-12': 'round 6. Fast path in keepControlHeaders looking at the first Connection line only. First trial: C06 only disagreed (C01 had a failing input). Witnesses with the control header named in a later Connection line added to corpus-h1 / corpus-h2.',
    'C07-11': "round 6. Agent TCP proxy half-closes the service connection instead of closing it. First trial: MISSED (every service of the harness closed when it saw end-of-stream). A lingering service (keeps writing after end-of-stream) behind the agent and the client forwarder: a write has to fail within 4 s of the client's close (rule tunnel-half-released).",
    'C07-12': "round 6. 64 KiB websocket read limit at the server's TCP proxy.",
    'C08-11': "round 6. Agent reverse proxy switched to Rewrite: queries with ';' or a stray '%' are re-encoded.",
    'C08-12': 'round 6. Auth middleware deletes x-piko-authorization after reading it (the token does not survive the inter-node hop).',
    'C09-11': 'round 6. `HMACSecretKey != nil` instead of len > 0 (Config.Load always sets a non-nil empty key): forged empty-secret tokens (also written for C10).',
    'C09-12': 'round 6. Cache of verified tokens + disable_disconnect_on_expiry zeroing the expiry: an expired token accepted after an earlier use. First trial: MISSED (every token was minted per request, expiries at least 30 s away). A token that expires in 2 s is used and the very same bytes are presented again after the expiry (second requests, rule expired-token-accepted).',
    'C10-12': 'round 6. Tenants-only upstream configuration leaves the upstream port without a verifier.',
    'C11-11': 'round 6. Outlier filter in the arrival window returning before lastTimestamp is updated (cf. C12-11).',
    'C11-12': "round 6. CompactLocal discarding every internal entry (the left marker with it). (The first trial's 'no failing input' was two runs of C11 sharing one scratch directory; runs against different trees now have their own.)",
    'C12-11': 'round 6. Same family as C11-11.',
    'C12-12': 'round 6. UpdateLiveness removes the node from the detector when it marks it unreachable: a silent node flaps back to reachable.',
    'C13-11': "round 6. decodeDelta preallocates from the sender's entry count (also written for C20).",
    'C13-12': 'round 6. Delta capped at 1024 entries before the sort. First trial: MISSED by C13 and C02 (at most ~450 entries per owner in any history), C03 only disagreed. Bulk-pull probe with 1300 and more entries.',
    'C14-11': 'round 6. OnUpsertKey suppressed when the value equals the (empty) value of the tombstone it replaces.',
    'C14-12': 'round 6. OnExpired delivered after the state lock was released. First trial: MISSED everywhere (the window is a few instructions wide; race_expire never hit it). Slow-subscriber probe: callbacks of one kind take 150 us - under the lock nothing can overtake them, outside it the re-discovery does.',
    'C15-11': 'round 6. Balancer cursor reset to 0 on every removal: the churn monitor reports the starved upstream.',
    'C16-11': 'round 6. MultiTenantVerifier returns a copy of the token without the expiry.',
    'C16-12': 'round 6. Same change as C05-11 seen from C16 (sequential lifecycle scenarios do not hit the interleaving); C05 and C20 decide it.',
    'C17-12': 'round 6. deltaEntry sorts internal entries first: the compaction marker overtakes the re-versioned entries.',
    'C18-11': 'round 6. Leave made context-aware but the stream deadline stays 10 s: a peer that accepts and never answers holds the shutdown beyond its grace period. First trial: only the broken tie was reported (the new leave probe no longer compiled against the changed signature of Gossip.leave). Scenario graceful-stalled-peer (a live gossip member whose stream port accepts and parks the connection, 2 s grace period): grace-exceeded. This also covers the round-5 change C18-10.',
    'C18-12': "round 6. The listener's close context derived from the Listen context: no reconnection once that context has expired.",
    'C19-11': 'round 6. AvgConns counts unreachable nodes.',
    'C19-12': "round 6. The 'no other nodes' guard of Rebalance removed.",
    'C01-13': "round 7. Keep-alive pooling for requests forwarded to another node (the pool is keyed by the endpoint id): after the endpoint's only upstream moved to a third node the entry node keeps writing to the old one. First trial: MISSED (injected views never changed within a cluster). Proxy harness op `view` (gossip caught up) and scenario moves.",
    'C01-14': "round 7. client.Dialer builds the URL by string concatenation: endpoint ids with ? # % are folded into another endpoint. First trial: MISSED by C01 (its proxy harness builds the TCP URL itself) and by C07 (plain ids). Tunnel scenarios with such ids through the real Dialer / Upstream and decoy listeners on the ids they fold into: reported by C07's check (rule tunnel-wrong-endpoint).",
    'C04-13': 'round 7. CompactLocal keeps the version of live entries newer than the last tombstone: receivers delete them with the marker.',
    'C04-14': 'round 7. Syncer ignores endpoint updates of nodes that are not active (unreachable ones too).',
    'C04-15': 'round 7. Sticky routing in LookupEndpoint without a status check.',
    'C05-14': "round 7. applyDeltaEntry no longer discards deltas about the local node (a restarted node's own state overwritten by a peer's memory). C13's rule 'own state untouched by received packets' reports it; C05 and C02 run honest histories in which no peer is ahead of an owner.",
    'C05-15': "round 7. shedSessions deregisters the shed connection from the cluster state itself, the handler's RemoveConn a second time. First trial: C05 MISSED (no shedding in its harness) and C16 / C19 only reported a broken tie because ONE harness of the package (rebalance, stress) no longer compiled against the changed addSession. Every check now builds only its own harness directories; C16's shedding scenario reports advertised {} / registered {e1: 1}.",
    'C07-13': 'round 7. One pooled buffer shared by both copiers of a leg. First trial: MISSED (at most 1 MiB per direction, rarely both directions busy). 3 MiB each way at the same moment through every kind of exit (streams above 256 KiB are compared inside the harness and leave it as fingerprints).',
    'C08-13': 'round 7. Timeout exemption widened from websockets to any Upgrade offer (h2c): first trial MISSED. Non-websocket upgrade offers in the timeout clusters.',
    'C08-15': 'round 7. Auth middleware reads an access_token form parameter with FormValue and so consumes form bodies. First trial: MISSED (token clusters sent no form bodies). Form posts (urlencoded, multipart) through authenticated proxy ports: rule transparent-req.',
    'C10-13': 'round 7. Manager keys its routing table by the lower-cased endpoint id while the permission check stays case sensitive.',
    'C10-14': 'round 7. MultiTenantVerifier caches verified tokens keyed by the token alone (accepted under another tenant).',
    'C10-15': 'round 7. Tenant auth inherits the default upstream keys.',
    'C15-14': "round 7. endpointFromKey splits at every colon: the syncer's key parsing is C04's (cf. C04-5).",
    'C16-15': 'round 7. Upstream server Shutdown returns early when the HTTP shutdown fails and skips the cancellation of the hijacked connections.',
    'C19-14': 'round 7. Integer rewrite of the balance test truncates the threshold.',
    'C19-15': 'round 7. De Morgan slip in the rebalance gating: the loop runs with threshold 0.',
    'C20-13': 'round 7. Node.Copy aliases the live endpoints map when it is allocated but empty. First trial: MISSED (stress readers discarded their snapshots and no node ever had zero endpoints). Readers walk the snapshots they hold; drain run with a single flapping endpoint under the race detector: concurrent map iteration and map write.',
    'C20-14': 'round 7. syncer.mu held while publishing to gossip: lock-order inversion with the gossip state mutex (cycle in the regenerated lock graph).',
    'C20-15': 'round 7. Delta() dereferences a nil node state for digest entries ApplyDigest ignored.',
    'C06-16': 'round 8 (five authors, two changes each, 10 delivered, 6 of them repeats of earlier changes - the packing change twice more). keepControlHeaders fast path with a case-sensitive substring test: `Connection: X-Piko-Forward`.',
    'C06-17': 'round 8. RemoveConn trusting the cluster count: a duplicate removal while a sibling upstream is connected drops the balancer. A registry defect with a routing symptom: C05 reports it (as for C06-2).',
    'C09-17': 'round 8. Admin forwardInterceptor registered before the auth middleware: an unauthenticated request with ?forward=<peer> is proxied to the peer.',
    'C18-16': 'round 8. websocket.Dial retries a response-less failure only if it is a net.Error: a handshake that ends in a clean EOF makes the listener give up.',
}


def outcome(c):
    if c["exit"] == 0:
        return "MISSED"
    v = c.get("violations") or []
    if v and all(x.rstrip().endswith("no-failing-input-found") for x in v):
        return "violation, no failing input (proof/correspondence broke)"
    return "VIOLATION with failing input"


def main():
    rows = []
    for d in sorted(glob.glob("/verif/seeded/*/meta.json")):
        name = os.path.basename(os.path.dirname(d))
        m = json.load(open(d))
        au = m.get("from_author") or {}
        rows.append((name, m, au))
    out = ["# Seeded changes and what the checks make of them", "",
           "Every directory holds `patch.diff` (apply with `git -C /repo apply`), `demo_test.go` (first line: where to place it) and",
           "`meta.json` (the author's description, what was confirmed and what was run). All were written by fresh sub-agents that saw only",
           "the property text and a scratch worktree; each was confirmed in a scratch worktree (demo passes without / fails with the",
           "change, `go build ./... && go test -vet=off -count=1 ./...` passes with it) before the checks were run against it.",
           "Regenerate this file with `tools/seeded_results.py`.", "",
           "| change | what it needs to show | checks (quick tier) | history |", "|---|---|---|---|"]
    for name, m, au in rows:
        needs = (au.get("needs") or au.get("needs_to_manifest") or au.get("summary") or "").replace("|", "/").replace("\n", " ")
        if len(needs) > 260:
            needs = needs[:257] + "..."
        final = dict(m.get("checks") or {})
        final.update(m.get("checks_after_strengthening") or {})      # the first trial is told in the history column
        m["checks"] = final
        chk = "; ".join("%s: %s" % (c.replace(":thorough", " (thorough tier)"), outcome(r)) for c, r in final.items())
        out.append("| %s | %s | %s | %s |" % (name, needs, chk, NOTES.get(name, "")))
    n = len(rows)
    caught = sum(1 for _, m, _ in rows if any(r["exit"] != 0 for r in (m.get("checks") or {}).values()))
    def own_res(name, m):
        ch = m.get("checks") or {}
        p0 = name.split("-")[0]
        cand = [r for c, r in ch.items() if c.partition(":")[0] == p0]
        bad = [r for r in cand if r["exit"] != 0]
        return (bad or cand or [{"exit": 0}])[0]
    own = sum(1 for name, m, _ in rows if own_res(name, m).get("exit", 0) != 0)
    withinput = sum(1 for name, m, _ in rows if outcome(own_res(name, m)) == "VIOLATION with failing input")
    out += ["", "%d changes; %d reported by at least one check, %d by the check of the property they were written against "
                "(%d of those with a concrete failing input found in the implementation)." % (n, caught, own, withinput)]
    open("/verif/seeded/RESULTS.md", "w").write("\n".join(out) + "\n")
    print("\n".join(out[-2:]))


if __name__ == "__main__":
    main()
