#!/usr/bin/env python3
"""writes seeded/RESULTS.md from seeded/*/meta.json (what tools/try_mutation.py recorded) plus the notes below"""
import glob, json, os

NOTES = {   # what happened on the FIRST trial of a change, and what was strengthened because of it
    "C02-1": "first trial: MISSED by C02 (no random history delivered a stale delta after the owner's compaction). Added the parked-packet generator (whole exchanges whose delta replies are delivered as a copy and again later) and the corpus witness corpus-stale-compact; coverage counter stale_entries_for_purged_keys in evidence.",
    "C11-2": "first trial: caught only as model/implementation disagreement. Monitor rule relearn-left (causal origin of in-flight packets) + membership-episode generator (leave/crash, partial notification, skewed expiry) + corpus-left-relearn.",
    "C13-1": "first trial: the check crashed on the malformed packet (KeyError) and reported check-internal-error. Monitor hardened (emit-decode signature), codec sweep reports the size/prefix failure with the content and max.",
    "C13-2": "first trial: the harness process died (make() of 2^40 entries) and the check reported an internal error. run_world / the raw hostile mode now bisect a process crash down to the history / datagram that causes it and report it as the failing input.",
    "C03-1": "first trial: caught only as disagreement on the G1 corpus item. The convergence phase rarely cut a delta; added a backlog of mixed-size entries per node and packet sizes down to 215; evidence counts the deltas cut in the convergence phase.",
    "C16-1": "first trial: MISSED by C16 (tokens expired within 1.3 s, so the leaked connection closed by itself before the 5 s quiescence window). Far expiries (60 s) in corpus and generator: shutdown / shedding must end the connection, not the deadline.",
    "C16-2": "C16 (sequential scenarios) and C05's concurrent mode did not hit the interleaving in their quick runs; C20's stress harness does (same lock-release change as C20-1).",
    "C10-2": "first trial: MISSED by C10. Forged HS256 token signed with the zero-length secret added to the wired (Config.Load) tenant deployment.",
    "C09-1": "first trial: caught only as disagreement. Same forged-token kind is now always sent to every wired port / tenant whose configuration has no HMAC secret.",
    "C08-1": "first trial: caught only as disagreement. Connection split over several field lines in websocket upgrades (corpus + generator) and monitor rule ws-upgrade-lost.",
    "C08-2": "first trial: MISSED (the harness always disabled the access log and used no header lists). Access-log configuration is now a dimension of every cluster; this exposed the genuine defect L1 in the unchanged tree (fixed: 90804ea). The change was rebased onto the fixed tree (patch2b).",
    "C01-2": "first trial: caught only as disagreement. Settled views now also remember departed (left/unreachable) nodes; monitor signature settled.",
    "C15-2": "first trial: caught only as disagreement on the cursor. Proved the sharper bound C15_no_starvation_churn (the coarse bound does not exclude this change: C15_reset_variant_refuted) and added the churn monitor + flapping corpus.",
    "C14-2": "caught in the first batch, missed after the generator changed (it needs unreachable-then-left); membership episodes now produce that sequence in every run.",
    "C06-2": "a defect of the balancer (loadBalancer.Remove) with a routing symptom: C06's clusters use scripted upstream sets and do not go through go-away double removal; C05 and C15 decide it.",
    "C18-1": "first trial: MISSED by C18 (single-loss scenarios only: the leaver never remembered an earlier departure). Scenarios now include a fourth node that left or crashed before the loss; notified-not-left counts as recorded-state evidence when Shutdown returned without any timeout (the failure depends on the shuffle of the leaver's peers).",
    "C18-2": "first trial: MISSED by C18 (with two survivors everybody is notified directly), C03/C11 only disagreed. C18 got a six-node scenario (Leave notifies four of five peers, the fifth must end as left, not unreachable) and the rule rest-not-following; C03's convergence phase now removes nodes that left from the rounds, so their final state has to reach everybody through relays, and counts them in the verdict.",
    "C08-3": "round 2. First trial: C08 only disagreed on the corpus (C01 reports the wrong endpoint).",
    "C08-4": "round 2. First trial: MISSED (no client of the harness ever half-closed). Clients that shut down their sending side while the upstream takes its time are now part of the corpus and the generator (environment faults: monitor only, left out of the Coq comparison).",
    "C13-3": "round 2. First trial: MISSED (every stream peer of the harness read the reply). The hostile mode now has a peer that sends a valid join (built with the real encoder) and never reads: the handler has to give up at its stream timeout.",
    "C14-3": "round 2. First trial: MISSED (sequential histories only). Concurrency probe race_expire: a node re-learned from digests/deltas on two goroutines while a third suspects and expires it; the recorded notifications must still fold to the final state (they did not: join of an already announced node).",
    "C16-3": "round 2. First trial: MISSED (no tenant verifier in the harness). Multi-tenant scenarios: the token's expiry must survive MultiTenantVerifier.",
    "C17-3": "round 2. First trial: MISSED by C17 (sequential), reported by C20's stress harness. Concurrency probe race_compact: fresh keys written while another goroutine deletes a scratch key and compacts; every one of them must be live afterwards.",
    "C15-3": "round 2. First trial: MISSED by C15 (its concurrent mode compared only the quiescent registry), C20's race build reported the data race. Selection storms: 6 goroutines x 12000 selections over a stable set must be one global rotation (totals differ by at most 1) - under the read lock the selector indexed out of range.",
    "C11-4": "round 2. The syncer promoting a pending node as Active although gossip holds it unreachable: C04 (routing status mirrors the membership flags) decides it; C11's monitor watches the gossip layer, where nothing changes.",
    "C18-3": "round 2. The same mechanism as C16-1 seen from C18 (a node shutting down keeps expiring-token upstreams): C16 decides it; C18's clusters run without authentication.",
    "C05-1": "C20: the regenerated lock-edge table no longer satisfies the lock-order proof (the translator half of the tie), and the stress harness shows the stale advertisement.",
}


def outcome(c):
    if c["exit"] == 0:
        return "MISSED"
    v = c.get("violations") or []
    if v and all(x.rstrip().endswith("no-failing-input-found") for x in v):
        return "violation, no failing input (proof/correspondence broke)"
    return "VIOLATION with failing input"


def main():
    rows = []
    for d in sorted(glob.glob("/verif/seeded/*/meta.json")):
        name = os.path.basename(os.path.dirname(d))
        m = json.load(open(d))
        au = m.get("from_author") or {}
        rows.append((name, m, au))
    out = ["# Seeded changes and what the checks make of them", "",
           "Every directory holds `patch.diff` (apply with `git -C /repo apply`), `demo_test.go` (first line: where to place it) and",
           "`meta.json` (the author's description, what was confirmed and what was run). All were written by fresh sub-agents that saw only",
           "the property text and a scratch worktree; each was confirmed in a scratch worktree (demo passes without / fails with the",
           "change, `go build ./... && go test -vet=off -count=1 ./...` passes with it) before the checks were run against it.",
           "Regenerate this file with `tools/seeded_results.py`.", "",
           "| change | what it needs to show | checks (quick tier) | history |", "|---|---|---|---|"]
    for name, m, au in rows:
        needs = (au.get("needs") or au.get("summary") or "").replace("|", "/").replace("\n", " ")
        if len(needs) > 260:
            needs = needs[:257] + "..."
        chk = "; ".join("%s: %s" % (c, outcome(r)) for c, r in (m.get("checks") or {}).items())
        out.append("| %s | %s | %s | %s |" % (name, needs, chk, NOTES.get(name, "")))
    n = len(rows)
    caught = sum(1 for _, m, _ in rows if any(r["exit"] != 0 for r in (m.get("checks") or {}).values()))
    own = sum(1 for name, m, _ in rows if (m.get("checks") or {}).get(name.split("-")[0], {}).get("exit", 0) != 0)
    withinput = sum(1 for name, m, _ in rows if outcome((m.get("checks") or {}).get(name.split("-")[0], {"exit": 0})) == "VIOLATION with failing input")
    out += ["", "%d changes; %d reported by at least one check, %d by the check of the property they were written against "
                "(%d of those with a concrete failing input found in the implementation)." % (n, caught, own, withinput)]
    open("/verif/seeded/RESULTS.md", "w").write("\n".join(out) + "\n")
    print("\n".join(out[-2:]))


if __name__ == "__main__":
    main()
